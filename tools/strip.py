"""Print python sources without docstrings (reading aid only)."""
import sys, ast, pathlib
def strip(path):
    src=pathlib.Path(path).read_text()
    tree=ast.parse(src)
    lines=src.splitlines()
    kill=set()
    for node in ast.walk(tree):
        if isinstance(node,(ast.FunctionDef,ast.ClassDef,ast.Module,ast.AsyncFunctionDef)):
            b=node.body
            if b and isinstance(b[0],ast.Expr) and isinstance(getattr(b[0],'value',None),ast.Constant) and isinstance(b[0].value.value,str):
                for i in range(b[0].lineno,b[0].end_lineno+1): kill.add(i)
    out=[]
    for i,l in enumerate(lines,1):
        if i in kill or not l.strip(): continue
        out.append(f"{i}: {l}")
    print("#### ",path); print("\n".join(out))
for p in sys.argv[1:]: strip(p)
