#!/bin/bash
# Confirm sub-agent seeded changes in a scratch worktree and file them under /verif/seeded/.
# usage: confirm_seeds.sh C14 C17 ...   (reads /tmp/seed_<id>/{A,B})
set -u
WT=/tmp/wt_confirm
git -C /repo worktree remove --force $WT 2>/dev/null
git -C /repo worktree add -q --detach $WT HEAD || exit 1
cp /repo/numpoly/cfunctions/*.so $WT/numpoly/cfunctions/
run_suite() { (cd $WT && PYTHONPATH=$WT timeout 900 /venv/bin/python -m pytest -q -p no:cacheprovider -q -rA 2>/dev/null | grep -E "^(PASSED|FAILED|ERROR)" | sort); }
run_suite > /tmp/confirm_base.txt
echo "baseline: $(grep -c ^PASSED /tmp/confirm_base.txt) passed $(grep -c ^FAILED /tmp/confirm_base.txt) failed"
for id in "$@"; do for x in A B; do
  src=${SRC:-/tmp/seed_}$id/$x; y=$x; [ -n "${ROUND2:-}" ] && { [ $x = A ] && y=C || y=D; }; [ -n "${ROUND3:-}" ] && { [ $x = A ] && y=E || y=F; }; [ -n "${ROUND4:-}" ] && { [ $x = A ] && y=G || y=H; }; [ -n "${ROUND5:-}" ] && { [ $x = A ] && y=I || y=J; }; [ -n "${ROUND6:-}" ] && { [ $x = A ] && y=K || y=L; }; [ -n "${ROUND7:-}" ] && { [ $x = A ] && y=M || y=N; }; [ -n "${ROUND8:-}" ] && { [ $x = A ] && y=O || y=P; }; [ -n "${ROUND9:-}" ] && { [ $x = A ] && y=Q || y=R; }; [ -n "${ROUND10:-}" ] && { [ $x = A ] && y=S || y=T; }; [ -n "${ROUND11:-}" ] && { [ $x = A ] && y=U || y=V; }; [ -n "${ROUND12:-}" ] && { [ $x = A ] && y=W || y=X; }; [ -n "${ROUND13:-}" ] && { [ $x = A ] && y=Y || y=Z; }; [ -n "${ROUND14:-}" ] && { [ $x = A ] && y=AA || y=AB; }; [ -f $src/patch.diff ] || { echo "$id-$x: no patch"; continue; }
  git -C $WT checkout -q -- . ; 
  if ! git -C $WT apply $src/patch.diff 2>/tmp/confirm_err.txt; then echo "$id-$x: PATCH DOES NOT APPLY: $(head -2 /tmp/confirm_err.txt)"; continue; fi
  run_suite > /tmp/confirm_seed.txt
  newfail=$(comm -13 <(grep ^FAILED /tmp/confirm_base.txt | cut -d' ' -f2) <(grep -E "^(FAILED|ERROR)" /tmp/confirm_seed.txt | cut -d' ' -f2) | wc -l)
  npass=$(grep -c ^PASSED /tmp/confirm_seed.txt)
  (cd /tmp && PYTHONPATH=$WT timeout 600 /venv/bin/python $src/demo.py >/tmp/confirm_demo1.txt 2>&1); rc_changed=$?
  git -C $WT checkout -q -- .
  (cd /tmp && PYTHONPATH=$WT timeout 600 /venv/bin/python $src/demo.py >/tmp/confirm_demo0.txt 2>&1); rc_clean=$?
  ok=no; [ $newfail -eq 0 ] && [ $rc_changed -eq 1 ] && [ $rc_clean -eq 0 ] && ok=yes
  echo "$id-$y ($x): newly_failing_tests=$newfail passed=$npass demo_changed_rc=$rc_changed demo_clean_rc=$rc_clean confirmed=$ok"
  if [ $ok = yes ]; then
    d=/verif/seeded/$id-$y; mkdir -p $d; cp $src/patch.diff $src/demo.py $d/; cp $src/notes.md $d/notes.md 2>/dev/null
    /venv/bin/python - "$id" "$x" "$d" "$npass" <<'PY'
import json, sys, subprocess
pid, x, d, npass = sys.argv[1:5]
notes = open(d + "/notes.md").read() if __import__("os").path.exists(d + "/notes.md") else ""
meta = {"property": pid, "variant": x, "origin": "independent sub-agent given only the property text and a scratch worktree",
        "needs_to_manifest": notes[:1500],
        "confirmed": {"head": subprocess.run(["git", "-C", "/repo", "rev-parse", "--short", "HEAD"], capture_output=True, text=True).stdout.strip(),
                      "how": "scratch worktree /tmp/wt_confirm: git apply patch.diff; pinned pytest suite: no newly failing test (%s passed); demo.py exits 1 with the change and 0 after git checkout" % npass},
        "detected_by": None}
json.dump(meta, open(d + "/meta.json", "w"), indent=1)
PY
  fi
done; done
git -C /repo worktree remove --force $WT
