#!/bin/bash
# usage: tryseed.sh <patch.diff> <check ids...>   - run checks against a patch in a private worktree (never /repo)
WT=/tmp/wt_try
patch=$1; shift
if [ ! -d $WT ]; then git -C /repo worktree add -q --detach $WT HEAD && cp /repo/numpoly/cfunctions/*.so $WT/numpoly/cfunctions/; fi
git -C $WT checkout -q --detach $(git -C /repo rev-parse HEAD) 2>/dev/null; git -C $WT checkout -q -- .
git -C $WT apply $patch || { echo "PATCH DOES NOT APPLY"; exit 3; }
for c in "$@"; do (cd /verif && VERIF_REPO=$WT PYTHONPATH=$WT timeout 900 ./check $c --workers ${W:-8} ${EXTRA:-} 2>/dev/null | grep -v "^WARNING\|KNOWN-FINDING" | tail -${TAIL:-3} | cut -c1-700); done
git -C $WT checkout -q -- .
