"""Regenerate the table of fix commits in DESIGN.md §10 from /repo's history."""
import pathlib, subprocess, re
p = pathlib.Path('/verif/DESIGN.md'); s = p.read_text()
log = subprocess.run(["git", "-C", "/repo", "log", "--reverse", "--format=%h %s", "94fcc42..HEAD"], capture_output=True, text=True).stdout.strip().splitlines()
rows = "\n".join(f"| `{l.split()[0]}` | {' '.join(l.split()[1:])[5:]} |" for l in log)
start = s.index("| commit | repair |")
end = s.index("\n\n", start)
s = s[:start] + "| commit | repair |\n|---|---|\n" + rows + s[end:]
p.write_text(s)
print(len(log), "fix commits")
