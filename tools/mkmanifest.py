"""Generate /verif/MANIFEST.json from the table below (single source of truth)."""
import json, os
HERE = os.path.dirname(os.path.dirname(os.path.abspath(__file__)))

CLAIMED = {
    "C14": dict(level="fault_enumeration", ref="DESIGN.md §4 C14",
        technique="deterministic simulation: option-history programs with injected exits/faults vs a stack model",
        text="Seeded programs of nested global_options blocks (real with-statements, generator-held and decorated blocks) with set_options, invalid updates (an unknown name alone, mixed with a few known ones, or together with a value for every known option), mutation of returned dicts, every exception kind, early return/break, and exceptions injected inside real numpoly calls (line interrupt at position k, MemoryError at allocation k); a stack model of the option dict is compared with get_options() after every step. Also: manager objects entered while active or again afterwards, decorated recursive functions, updates with ill-formed values (atomic either way), unknown names with any value (None, False, ""), runs with warnings escalated to errors, a second party's set_options landing at executed line k of a running library operation (which must not overwrite it), and stack exhaustion at every distance from the recursion limit in a window around a block. The enumerated family (depth 1-4 x 15 exit kinds x 7 inner actions x catch level) is covered completely in every run, the rest is seeded sampling: evidence, not proof.",
        note="Trusts CPython's contextlib and the harness's stack model (40 lines). Interrupts are never injected into frames of numpoly/option.py itself (asynchronous-exception atomicity of a context manager's own entry/exit code is more than C14 states). Overlapping global_options blocks of two threads are not explored (they restore each other's snapshots by design of the unchanged tree; DESIGN 9)."),

    "C17": dict(level="fault_enumeration", ref="DESIGN.md §4 C17",
        technique="deterministic simulation: fault injection at interior points of every public call (line interrupts, allocation failures, natural errors) with byte-level argument snapshots",
        text="Every callable of a 181-entry catalogue (functions, numpy spellings, operators incl. reflected, methods, properties; optional keywords such as where=, print options) is called on generated arguments, including already-aligned operands that make internal aliasing possible, in four run classes: fault-free, natural error (spoiled arguments), asynchronous interrupt at executed line k of numpoly code (k from a fault-free dry run; thorough enumerates every k up to 1500 lines per call), MemoryError at allocation k (every k). All arguments are snapshotted byte-for-byte before and compared after, whatever the outcome; after a failed call the option dict and dispatch registries are re-checked. Allocation requests include numpy's array-creating functions called from numpoly code; arguments also come as bool/narrow dtypes, transposed or reversed views (their parents are snapshotted too), the same object twice, operands with names in reverse order, 0-d array axes, and arrays handed directly to constructors and index utilities; a share of the runs has warnings/numpy error state escalated to exceptions. An argument that can no longer be read afterwards counts as changed.",
        note="Cython frames are invisible to the line tracer (they run to completion). Explicit output targets (out=, copyto destination) are not generated."),
    "C18": dict(level="exploration", ref="DESIGN.md §4 C18",
        technique="deterministic simulation: adversarial tie orders of the unstable sort (SortSeam) against a comparison-based reference sort and brute-force index enumeration",
        text="glexsort key matrices (exhaustive small family plus random ones up to 4x400), glexindex/bindex/monomial/cross_truncate argument tuples (monomial also inside a block with other retain/sort options); every case is executed under every tie policy of the stand-in for numpy's unstable argsort (stable, reversed, rotated, seeded permutations) and must equal the reference (Python sorted with the documented key; brute-force enumeration of the grid with exact rational norms) and be identical across policies. 'Platform-independent' is thereby checked over tie orders no single machine exhibits. History and faults: an earlier result edited in place, the same request interrupted at a seeded line and made again, MemoryError at the k-th allocation request inside the call (a returned value must still be exact), numpy error state set to raise; bounds/keys/flags as numpy scalars and narrow dtypes near their limits, one long axis, every spelling of the bindex ordering, the largest expansions on pattern-filled memory.",
        note="Only module-level numpy.argsort/sort calls inside numpoly are interceptable; a method-form call would see this platform's real order (evidence reports seam consult counts). start<=stop and lower norm<=upper norm are generated; near-boundary points for norms .5/.8 are accepted either way."),
    "C07": dict(level="exploration", ref="DESIGN.md §4 C07",
        technique="deterministic simulation: tie-order seam x sort-option histories, documented-order oracle on canonical term dictionaries",
        text="Pairs and triples of polynomial arrays biased to many same-degree terms (incl. unsigned/narrow dtypes and int64 extremes) are compared with all six operators, the numpy/numpoly spellings and maximum/minimum under all four sort settings (reached directly, through nested blocks or through set_options inside a block) and under adversarial tie policies; verdicts must equal the documented order computed independently of glexsort, satisfy trichotomy/antisymmetry/transitivity, and not depend on the tie policy. History: option prelude, retain options in force, the same comparison interrupted and repeated, the smaller operand overwritten in place between two comparisons, the same object on both sides, comparisons evaluated by a worker thread started inside the option block, the sort order selected at executed line k of a comparison that is still under way (deterministic interleaving), dense 66-84-term operands; operands of mixed signed/unsigned 64-bit dtype and of identical storage layout over different names; fresh memory holds a fixed pattern.",
        note="Names are generated in numeric-suffix order; no NaN/inf. Quick uses the stable policy plus one seeded adversarial policy per case, thorough all four."),
    "C19": dict(level="exploration", ref="DESIGN.md §4 C19",
        technique="deterministic simulation: tie-order seam x heap-content seam, leading-term oracle on canonical term dictionaries",
        text="lead_exponent/lead_coefficient, sortable_proxy, argmax/argmin/amax/amin without axis, decompose, set_dimensions, isconstant/tonumpy on arrays with zero elements, equal leading terms, int64 coefficients beyond 2**53 that differ by one and ties, executed under (tie policy, heap fill) environments; results must equal the reference computed from the term dictionaries and be identical across environments (no dependence on unstable-sort ties or on the bytes of fresh allocations). History: retain options in force, query / overwrite coefficients in place / query again, accessor and query results overwritten by the caller, near-collision primer, interrupted-then-repeated query; infinities; flags as numpy.bool_; the queries asked of the raw structured storage.",
        note="Real coefficients only. Tied proxy ranks may come in any order (not compared across environments)."),
    "C16": dict(level="exploration", ref="DESIGN.md §4 C16",
        technique="deterministic simulation: tie-order seam x display-option histories, independent text reader",
        text="str and repr of generated arrays (units, coefficients a hair away from +-1, negative/complex/bool coefficients, narrow dtypes, names to q12) under all display orders, alternative exponent/multiply signs (reached through option histories) and adversarial tie policies are read back by an independent tokenizer/evaluator over dictionary polynomials and must equal the polynomial; printed monomials must follow the selected order; text must not depend on the tie policy; to_sympy round trip for 0-d int/float polynomials. Chunks of runs share a process, so state leaking between prints (caches) is found and replayed with its history. Also: retain options in force, an interrupted earlier print of the same array, integers beyond 2**53, arbitrary 53-bit doubles (sympy round trip exact), exponents beyond one byte, shapes beyond numpy's summarising threshold of lines, numpy print settings that must not matter (linewidth, precision, sign, floatmode), pattern-filled fresh memory.",
        note="numpy's suppress/threshold/legacy print options stay at their defaults (they legitimately change the text); the sympy clause runs under the default signs."),

    "C11": dict(level="exploration", ref="DESIGN.md §4 C11",
        technique="deterministic simulation: tie-order seam x heap-content seam, numpy itself as the oracle on the raw arrays",
        text="For 82 mirrored functions with argument generators (a systematic function x operand-kind sweep first), numeric arrays with many repeated values are wrapped as constant polynomials (plain, with unused names, with retained zero terms) and the numpoly result (numpoly and numpy-dispatch spellings) is compared with numpy's on the raw arrays under (tie policy, heap fill) environments; argmax/argmin ties, amax/amin along axes and every allocation-dependent result must agree with numpy and be identical across environments; non-constant divisors must raise FeatureNotSupported. Spellings: numpoly, numpy dispatch, and the method form for the functions the library's own tests exercise as methods. History: option prelude, the same call earlier on narrower dtypes / with an equal number spelled differently / with more keywords, an interrupted earlier call, query-update-query on one object, the polynomial as its own out=. Inputs also as transposed views, read-only storage, aliased operands, narrow and large-valued data, infinities in comparison functions and isclose, order= arguments (the numpy reference gets the same memory layout); a share of runs under errstate(invalid/divide=raise) and in python -O.",
        note="Only 'numpy returns => numpoly returns the same' is asserted. Text functions, savetxt and copyto are not compared (C16/C13/output target). Functions numpoly evaluates in another operation order than numpy (det, matmul, inner, prod, sums on other layouts) are compared with a tolerance scaled by the operand magnitude. Five genuine defects are listed in known_findings.json. bool and NaN data are outside the quantifier (numpoly differs from numpy there; DESIGN 10)."),

    "C12": dict(level="exploration", ref="DESIGN.md §4 C12",
        technique="deterministic simulation: heap-content seam (fill patterns incl. stale numpoly bytes, red zones) with numpy casts/promotion on plain arrays as the oracle",
        text="All 14 numeric dtypes and all ordered pairs through constructors/casts (polynomial/aspolynomial/polynomial_from_attributes incl. mixed-dtype coefficient lists/dict/variable/symbols/astype), +,-,*,**, indexing, shape functions, creation functions and results with zero surviving terms; every step is executed under several contents of fresh memory (zero, 0xA5, 0xFF, seeded bytes, stale bytes of an earlier numpoly buffer) with canary zones around every polynomial buffer. The result must be byte-identical across fills (nothing unwritten is returned) and equal the dtype and values numpy's own cast/promotion gives. The complete (source dtype, target dtype, cast route) matrix comes first in every batch; also byte-swapped requested dtypes, Fortran-ordered data, numpy/Python scalar operands after an equal number of another type, neighbouring floats, the same object on both sides, index expressions with non-adjacent advanced indices, names+dtype requests, an interrupted earlier call, raw structured arrays whose fields differ in type, dictionaries of differently typed arrays with int64 beyond 2**53.",
        note="numpoly.ndpoly(...) is the documented raw allocator (exempt). Buffers numpy allocates internally cannot be poisoned. Python-scalar operands: values only (a scalar is not a dtype). Runs execute in forked children; a child killed by a signal is recorded as undecided(crashed)."),

    "C13": dict(level="fault_enumeration", ref="DESIGN.md §4 C13",
        technique="deterministic simulation: simulated file objects/paths/locale with I/O fault injection at every write, read-side call and close; round-trip oracle on canonical forms",
        text="Pickle (protocols 0-5, via dumps, simulated streams, out-of-band buffers), copy/deepcopy/.copy() and savetxt->loadtxt (fmt/delimiter/header/comments, both spellings) for 0-d, size-1, single-term, constant, multi-dimensional and transposed/sliced arrays, through text and bytes streams (with/without encoding attribute) and str/PathLike paths routed to simulated files under a simulated locale. Per save an OSError is injected at EVERY write index the fault-free run made and at close (a save that returns normally must load back); per load at every read-side call (the load must raise or return the right polynomial). Header-less files (with comment lines, skiprows) must load as the plain array numpy gives. Further faults: the device is full after N characters (raw streams return short counts; judged when the short count went to numpoly code), errno drawn from EIO/ENOSPC/EINTR/EAGAIN/ESTALE, forward-only readers, buffered readers whose peek returns a few bytes, newline/footer/header variety; re-pickling after an in-place update; the same path written a second and third time (another polynomial, a plain table) with a load after each; integer files beyond 2**53 loaded with an integer dtype; byte-swapped coefficients in pickle/copy; 2 % of the runs execute in a fresh python -O interpreter.",
        note="Nothing is asserted about torn files. Save and load share one simulated locale. A short count returned to numpy's own row writer (which ignores it) is undecided. bytes paths are not generated (numpy.savetxt rejects them). The path router is the open() of numpy's loaders and of every numpoly module. The FileSeam probes itself at every use (exit 2 if numpy moved the open() call sites)."),

    "C20": dict(level="exploration", ref="DESIGN.md §4 C20",
        technique="deterministic simulation: monomial journeys with large exponents through every stage, the text-file stage under the FileSeam (stream kind, locale, explicit encodings, write faults); exponent tuples as the oracle",
        text="Polynomials with exponents from {0..600, powers of two +-1 up to 1e5, the byte/ASCII/latin-1/surrogate/BMP boundaries, byte pairs that form valid UTF-8} are carried through a seeded sequence of stages (raw structured view and back, alignment, *, **, derivative, evaluation, symbol swap, pickle, savetxt->loadtxt on text/bytes streams and paths under utf-8/latin-1/ascii locales, explicit save encodings and write faults); after each stage the stage raised or the (exponent tuple, coefficient) set equals the model. Journeys also run under the retain options, with column-major exponent matrices, partial evaluation with merging terms, several differentiation variables, powers given as numpy scalars, evaluation at 2, near-collision tuples, subsets of names, an interrupted earlier attempt of a stage, int32/int16 coefficients, HeapSeam fill patterns for fresh memory, whole arrays of powers, names stored out of order with a differentiation that removes an indeterminate. Range sweeps encode/decode every exponent of a window (thorough: the whole representable range) and multiply (sum c_a q0**a)*q0**b for every a+b<=600.",
        note="A raising stage is a violation only below exponent 55 000 and outside the text stage. Symbol substitution is limited to exponents <= 100 (power is repeated multiplication). int64 coefficients; journeys whose model coefficients would overflow stop undecided."),

    "C15": dict(level="exploration", ref="DESIGN.md §4 C15",
        technique="deterministic simulation: option histories (C14 program shapes) x dataflow programs, twin execution under defaults as the oracle",
        text="Small dataflow programs over a pool of polynomials (construct, + - * **, derivative/gradient/hessian by name/index/polynomial, full/partial/polynomial evaluation, indexing, alignment, clean_attributes, pickle, comparisons, lead_*, argmax, maximum/minimum and all ordering operators, str/repr, shape functions, construction from dictionaries / without names / with one string name, isfinite, tonumpy, powers by a polynomial, evaluation of a cancelled-to-constant polynomial with arrays, symbols(), items overwritten in place) run inside option histories (nested global_options blocks, set_options inside blocks, rejected updates, exception exits; retain_*/sort_*/display_*/force_number_suffix), so operands built under one regime are consumed under another; the same program runs a second time under the shipped defaults (ordering steps with the same sort_*, text steps with the same display_*) and every step must agree in outcome class, shape, coefficient dtype and canonical value.",
        note="Division is excluded (the property quantifies it under default retain options). Steps designating an indeterminate that retain_names=False legitimately pruned, and positional results (gradient/hessian/lead_exponent) over pruned names, are undecided. Its per-call core is configuration sampling; what simulation adds is the history through which the setting and the operands came about."),
}

PENDING = {}

NOT_APPLICABLE = {
    "C01": "ring arithmetic is a pure function of the operands: no schedule, clock, fault, stream or global history in any clause; its one environment dependence (unwritten coefficients) is decided under C12",
    "C02": "evaluation/substitution is a pure function of polynomial and arguments; nothing to schedule or fault",
    "C03": "well-formedness is a predicate on each returned value, universally quantified over inputs; no seam in any clause (retain-flag option dependence is exercised by C15)",
    "C04": "alignment is a pure function of the operand tuple (its 'arguments never modified' clause is C17's, which drives the align_* functions under fault injection)",
    "C05": "division is a deterministic single-threaded loop of its two inputs: no scheduler decision or fault to search over; an iteration watchdog on random inputs would be runtime monitoring/input testing, not simulation",
    "C06": "derivatives are a pure function of (polynomial, variables); the 'under every option setting' clause is exercised by C15 whose dataflow programs include derivative/gradient/hessian",
    "C08": "a statement about a static registry and pure calls; no state, fault or nondeterminism involved",
    "C09": "shape functions and indexing are pure functions of array and shape/axis/index arguments",
    "C10": "reductions and linear algebra are pure functions of array and axis arguments",
}

def main():
    checks = []
    for pid, c in sorted(CLAIMED.items()):
        checks.append({
            "property_id": pid,
            "quick_cmd": f"timeout 900 ./check {pid} --tier quick",
            "thorough_cmd": f"timeout 14000 ./check {pid} --tier thorough",
            "evidence_file": f"evidence/{pid}.json",
            "replay_cmd_template": f"./check {pid} --replay {{path}}",
            "engine": "sim",
            "level_claimed": {"category": c["level"], "text": c["text"], "design_ref": c["ref"]},
            "level_note": c["note"],
            "technique": c["technique"],
        })
    na = [{"property_id": k, "reason": v} for k, v in sorted(NOT_APPLICABLE.items())]
    na += [{"property_id": k, "reason": v} for k, v in sorted(PENDING.items())]
    doc = {
        "version": 1,
        "setup_cmd": "./setup.sh",
        "hooks": {
            "guard": "NUMPOLY_VERIF",
            "enable": "no source hooks: all seams install from the harness (module-global numpy proxy, ndpoly.__new__ wrapper, sys.settrace, open() router); NUMPOLY_VERIF is reserved and unused",
            "baseline_off_cmd": "cd /repo && /venv/bin/python -m pytest -ra -q -p no:cacheprovider --timeout=900 --continue-on-collection-errors",
            "source_commits": [],
            "add_only": True,
        },
        "engines": [{"name": "sim", "path": "sim/", "serves_properties": sorted(CLAIMED), "kind_free_text": "deterministic simulator with fault injection (own code, Python): counter-based seeded choices, harness-side seams (heap bytes, unstable-sort tie order, file objects/locale, interior exceptions, option histories), explicit JSON plans, ddmin minimiser, fresh-interpreter replay"}],
        "checks": checks,
        "not_applicable": sorted(na, key=lambda d: d["property_id"]),
        "notes": "See DESIGN.md. Genuine defects found on the pinned tree were repaired as 'fix:' commits in /repo and are listed in known_findings.json ('fixed'). exit 2 = harness error, never a verdict.",
    }
    with open(os.path.join(HERE, "MANIFEST.json"), "w") as dst:
        json.dump(doc, dst, indent=1)
    print("claimed", sorted(CLAIMED), "n/a", len(na))

if __name__ == "__main__":
    main()
