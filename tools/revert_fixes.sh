#!/bin/bash
# For every "fixed:" line: revert that commit alone in a scratch worktree and run the check of the property
# it is recorded under: the violation must come back (a fixed entry suppresses nothing).
WT=/tmp/wt_revert
OUT=/tmp/revert_out.tsv; : > $OUT
git -C /repo worktree remove --force $WT 2>/dev/null
git -C /repo worktree add -q --detach $WT HEAD || exit 1
cp /repo/numpoly/cfunctions/*.so $WT/numpoly/cfunctions/
/venv/bin/python - <<'PY' > /tmp/revert_list.txt
import json, re
for line in json.load(open('/verif/known_findings.json'))["fixed"]:
    m = re.match(r"fixed: property=(C\d+) ([0-9a-f]{7}) ", line)
    if m: print(m.group(1), m.group(2))
PY
while read prop commit; do
  git -C $WT checkout -q -- . ; git -C $WT reset -q --hard HEAD
  if ! git -C $WT revert --no-commit $commit >/dev/null 2>&1; then
    git -C $WT revert --abort 2>/dev/null; git -C $WT reset -q --hard HEAD
    echo -e "$prop\t$commit\tCONFLICT" >> $OUT; continue
  fi
  (cd /verif && VERIF_REPO=$WT PYTHONPATH=$WT timeout 1200 ./check $prop --no-min --workers ${W:-8} >/tmp/revert_last.txt 2>/dev/null); rc=$?
  echo -e "$prop\t$commit\t$rc\t$(grep -m1 '^violation:' /tmp/revert_last.txt | cut -c1-200)" >> $OUT
done < /tmp/revert_list.txt
git -C $WT reset -q --hard HEAD
git -C /repo worktree remove --force $WT
echo done >> $OUT
