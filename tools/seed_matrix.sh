#!/bin/bash
# Run every quick check (no minimisation) against seeded changes in a scratch worktree (never in /repo).
# usage: seed_matrix.sh [seed-dir-names...]   -> /tmp/matrix_out_$TAG.tsv lines "seed<TAB>check<TAB>exit"
# env: TAG (scratch suffix), W (workers per check), CHECKS, SNAP=1 (run from a private copy of /verif), SKIPOWN=1
set -u
TAG=${TAG:-0}
WT=/tmp/wt_matrix_$TAG
V=/verif
if [ -n "${SNAP:-}" ]; then V=/tmp/verif_msnap_$TAG; rm -rf $V; mkdir -p $V; rsync -a --exclude replays --exclude .git --exclude scratch /verif/ $V/; fi
git -C /repo worktree remove --force $WT 2>/dev/null
git -C /repo worktree add -q --detach $WT HEAD || exit 1
cp /repo/numpoly/cfunctions/*.so $WT/numpoly/cfunctions/
OUT=/tmp/matrix_out_$TAG.tsv; : > $OUT
seeds="$@"; [ -z "$seeds" ] && seeds=$(ls /verif/seeded | grep -E '^C[0-9]+-')
for seed in $seeds; do
  git -C $WT checkout -q -- .
  git -C $WT apply /verif/seeded/$seed/patch.diff || { echo "$seed PATCH-FAILS" >> $OUT; continue; }
  for c in ${CHECKS:-C07 C11 C12 C13 C14 C15 C16 C17 C18 C19 C20}; do
    [ -n "${SKIPOWN:-}" ] && [ "$c" = "${seed%%-*}" ] && continue
    (cd $V && VERIF_REPO=$WT PYTHONPATH=$WT VERIF_WALL_CAP=300 timeout 400 ./check $c --no-min --workers ${W:-8} >/tmp/matrix_last_$TAG.txt 2>/dev/null); rc=$?
    echo -e "$seed\t$c\t$rc" >> $OUT
  done
done
git -C $WT checkout -q -- .
git -C /repo worktree remove --force $WT
[ -n "${SNAP:-}" ] && rm -rf $V
echo done >> $OUT
