#!/bin/bash
# Run every quick check against every seeded change in a scratch worktree (never in /repo).
# usage: seed_matrix.sh [seed-dir-names...]   -> writes /verif/seeded/MATRIX.tsv lines "seed<TAB>check<TAB>exit"
set -u
WT=/tmp/wt_matrix
git -C /repo worktree remove --force $WT 2>/dev/null
git -C /repo worktree add -q --detach $WT HEAD || exit 1
cp /repo/numpoly/cfunctions/*.so $WT/numpoly/cfunctions/
OUT=/tmp/matrix_out.tsv; : > $OUT
seeds="$@"; [ -z "$seeds" ] && seeds=$(ls /verif/seeded | grep -E '^C[0-9]+-')
for seed in $seeds; do
  git -C $WT checkout -q -- .
  git -C $WT apply /verif/seeded/$seed/patch.diff || { echo "$seed PATCH-FAILS" >> $OUT; continue; }
  for c in ${CHECKS:-C07 C11 C12 C13 C14 C15 C16 C17 C18 C19 C20}; do
    (cd /verif && VERIF_REPO=$WT PYTHONPATH=$WT timeout 900 ./check $c --no-min --workers ${W:-8} >/tmp/matrix_last.txt 2>/dev/null); rc=$?
    echo -e "$seed\t$c\t$rc" >> $OUT
  done
done
git -C $WT checkout -q -- .
git -C /repo worktree remove --force $WT
echo done >> $OUT
