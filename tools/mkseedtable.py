"""Fill DESIGN.md §13 and seeded/*/meta.json from /tmp/own_out.tsv (own-property runs) and an optional
cross matrix /verif/seeded/MATRIX.tsv (seed, check, exit code)."""
import collections, json, os, re, sys
HERE = os.path.dirname(os.path.dirname(os.path.abspath(__file__)))
own = {}
for line in open(sys.argv[1] if len(sys.argv) > 1 else '/tmp/own_out.tsv'):
    parts = line.rstrip("\n").split("\t")
    if len(parts) >= 3:
        own[parts[0]] = {"rc": parts[2], "hist": parts[3] if len(parts) > 3 else "0", "first": parts[4] if len(parts) > 4 else ""}
cross = collections.defaultdict(dict)
mpath = os.path.join(HERE, "seeded", "MATRIX.tsv")
if os.path.exists(mpath):
    for line in open(mpath):
        parts = line.split()
        if len(parts) == 3:
            cross[parts[0]][parts[1]] = parts[2]
rows = []
for seed in sorted(os.listdir(os.path.join(HERE, "seeded"))):
    d = os.path.join(HERE, "seeded", seed)
    if not os.path.isdir(d):
        continue
    meta = json.load(open(os.path.join(d, "meta.json")))
    notes = open(os.path.join(d, "notes.md")).read() if os.path.exists(os.path.join(d, "notes.md")) else ""
    o = own.get(seed, {})
    caught = sorted(c for c, rc in cross.get(seed, {}).items() if rc == "1")
    if o.get("rc") == "1" and seed.split("-")[0] not in caught:
        caught.append(seed.split("-")[0])
    meta["detected_by"] = sorted(caught)
    clause = ""
    m = re.search(r'"clause": "([^"]+)".*?"op": "([^"]+)"', o.get("first", ""))
    if m:
        clause = f"{m.group(1)} @ {m.group(2)}"
    meta["own_check"] = {"exit": o.get("rc"), "first_violation": clause, "history_dependent_replay": o.get("hist") not in (None, "0", "")}
    json.dump(meta, open(os.path.join(d, "meta.json"), "w"), indent=1)
    # one-line summary: first sentence-ish of notes
    files = sorted(set(re.findall(r'^\+\+\+ b/(\S+)', open(os.path.join(d, "patch.diff")).read(), re.M)))
    rows.append((seed, ", ".join(f.replace("numpoly/", "") for f in files), o.get("rc", "?"), clause + (" (history-dependent replay)" if meta["own_check"]["history_dependent_replay"] else ""), ", ".join(sorted(caught))))
out = ["| seed | files touched | own check exit | first violation reported | detected by |", "|---|---|---|---|---|"]
for r in rows:
    out.append("| " + " | ".join(r) + " |")
table = "\n".join(out)
p = os.path.join(HERE, "DESIGN.md")
s = open(p).read()
start = s.index("## 13. Seeded changes and which checks catch them")
end = s.index("## Appendix A")
intro = '''## 13. Seeded changes and which checks catch them

Fourteen rounds of independent sub-agents (one per claimed property and round)
were given only the text of one property and a private scratch worktree, and
asked for two changes each that break the property, keep the pinned suite green
and need something specific to manifest; rounds two to fourteen were steered
towards state left by earlier calls, failures at interior points, unspecified
behaviour of dependencies and cooperating edits, and were told which ideas were
already taken (variants A/B = round 1, C/D = round 2, E/F = round 3,
G/H = round 4, I/J = round 5; round 5 was pointed at shared infrastructure:
`align.py`, `dispatch.py`, `clean.py`, `baseclass.py`, `utils/`; K/L = round 6,
pointed at the process-wide environment, unusual-but-legal object structure and
aliasing; M/N = round 7, pointed at sequences of different operations on the
same objects, unusual argument types, interacting keywords and resources;
O/P = round 8, pointed at numerical edge semantics, inner-axis shapes, text
format interplay and ordering of validation and side effects; Q/R = round 9,
asked to find clauses and parts of the quantified domain no earlier idea had
touched; S/T, U/V, W/X, Y/Z and AA/AB = rounds 10 to 14, the same with a time limit). Every change was confirmed by
`tools/confirm_seeds.sh` in a scratch worktree (patch applies; no newly
failing test; the agent's demo fails with the change and passes without) before
it was filed under `/verif/seeded/<id>/` (`patch.diff`, `demo.py`, `notes.md`
with the trigger, `meta.json`). One first-round change
(C13-A, pickling through `values`) stopped being a breaking change when the
underlying defect — `values` of a non-contiguous array — was found by the C13
check itself and repaired (§10); it was retired. So was C12-D (a float64 zero
fallback in `clean.py`) once the default result dtype was repaired to be the
promotion of the coefficients as given (§10): its own demo passes with the
change applied. Five were re-created by hand
on a later HEAD after repairs touched the same lines (`meta.json: rebased`).

Checks are run against a seeded change in a private worktree
(`tools/tryseed.sh`, `tools/seed_own.sh`; `VERIF_REPO` points the harness at
it), never in `/repo`. "own check exit" is the exit code of the quick check of
the change's own property on the final machinery: 1 = VIOLATION reported after
the failing plan was replayed in a fresh interpreter (for this final table the
minimiser was switched off for most rows to fit the run into the time left;
during the rounds every change went through the full pipeline). "detected by"
adds the other checks that reported a violation in the cross matrix
(`tools/seed_matrix.sh`: the 130 changes of rounds 1-6 against the ten other
quick checks, on the machinery as it stood after round 6). Three cells of that
matrix ended with a harness error instead of a verdict (C11-K under C13: the
`-O` child cannot import a numpoly whose registrations live in stripped
asserts; C13-D and C15-F under C20: the batch wall cap, before a batch that
runs out of time learned to report what it had found).

What the first runs missed, and what was strengthened (all of it is now part of
the checks): C07-B needed unsigned/narrow dtypes and int64 extremes; C17-A/B
needed `where=` and print-option keywords in the operation catalogue; C16-B
(an `lru_cache` keyed without the display signs) needed runs that share a
process, which led to chunked runs and history-dependent replays; C13-D (a
module holding a stale option dict) and C19-C (a query silently depending on
`retain_names`) led to the option prelude and to options in force at call time;
C18-D (a cached array handed out as a writable view) to "results are fresh
objects"; C20-C/C17-C (cached exponents decremented in place) to reusing the
same object after a stage; C11-C (rank proxy cached on the object) and C11-D
(`out=p` wiped before use) to requery-after-update and the polynomial as its
own output; C17-D (`to_sympy` renaming its argument, not restored on the
failure path) to a `to_sympy` entry in the catalogue, where the line-interrupt
fault finds it; C15-C (a rejected `set_options` leaking its valid keys) to the
twin running under the options the program asked for. Round three: C19-E (a
constancy flag cached on the object) and C13-E (pickle state memoised on the
object) led to query/pickle, overwrite the coefficients in place, query/pickle
again; C19-F (a module-level cache keyed on the exponent bytes without their
shape) to the near-collision primer (the same query, earlier, on a polynomial
whose exponent matrix holds the same numbers in another width); C12-E and C11-F
(`lru_cache`d scalar constants, where `1 == 1.0 == True` and `0.0 == -0.0` share
a key) to numpy/Python scalar operands preceded by an equal number spelled
differently; C12-F (complex -> bool through `.real`) to the complete (source
dtype, target dtype, cast route) matrix with purely imaginary data; C11-E
(comparisons decided on the sign of a difference) to int64 extremes, unsigned
data and infinities in the comparison functions; C18-E (unsigned bounds wrapping
at `start - 1`) to bounds passed as numpy integers of every signedness; C18-F
(a division by zero that is only a warning by default) to running index
generation under `numpy.errstate(all="raise")` — which also exposed a genuine
division by zero for `stop == 0` (repaired, §10); C16-E (element names taken
from the parent array) to printing with the retain options in force; C16-F and
C20-F to integers beyond 2**53 and to powers whose exponent cannot be
represented; C17-F (`-0.0` rewritten in place) to negative zero in float data;
C20-E to a permuted multi-field view of the raw storage; C15-F (an unpicklable
result) to treating a result whose own accessors raise as a verdict.
Round four: C13-G/H (a reader that seeks backwards; a reader that peeks) to
forward-only streams chosen per step; C14-G/H (a bad *value* accepted or half
applied) to `set_badvalue` steps and decorated repeated calls; C19-G/H to
scribbling over returned accessor results and to infinities in the data; C18-G/H
to abort-and-retry (an interrupted call followed by the same call) and bounds
of every dtype; C11-G/H (narrow-dtype overflow; a cache primed by a narrower
dtype) to narrow and large-valued data, a narrower-dtype primer and a
systematic function x operand-kind sweep at the start of every batch (which also
exposed the `floor_divide` dtype defect, §10); C07-G/H to the retain options in
force during comparisons; C12-G/H to Fortran-ordered plain data and the
numpy/Python scalar operand forms; C20-G/H to near-collision exponent tuples,
subsets of the variable names and four or five names; C16-G/H to an interrupted
print followed by the same print and to larger shapes (numpy's summarising
threshold); C17-G/H to the `mode` keyword of `choose`; C15-G/H (and three side
remarks about the unchanged tree, all reproduced and repaired, §10) to
construction from dictionaries and without names, `isfinite`, `tonumpy` of
constants and powers by a polynomial in the twin programs.
Round five (10 of 22 missed at first): C14-I/J to reused manager objects,
recursive decorated functions and warnings-as-errors; C18-I/J to allocation
failures at numpy's array-creating functions and to narrow key dtypes / one long
axis; C13-I/J to the device-full fault with short writes on raw streams and to
comment lines with `skiprows`; C17-I/J to bool and other coefficient dtypes and
to counting an argument that can no longer be read as changed; C07-I to
compare-again after an in-place update; C11-I/J to the method spelling, keyword
primers, transposed views and `order=`; C15-J to single-string names; C16-J to
exponents beyond one byte; C20-J to a partial-evaluation stage with merging
terms.
Round six (13 of 22 missed at first): C13-L and C11-K (an `assert` with a side
effect) to runs executed in a fresh `python -O` interpreter; C13-K to the
"try again" errnos among the write faults; C07-K to signed-against-unsigned
64-bit operands, C07-L (options moved into a context variable) to comparisons
evaluated by a worker thread started while the options are in force; C12-K to
byte-swapped requested dtypes, C12-L to operands holding neighbouring floats;
C17-K/L to catalogue entries that hand arrays straight to the constructors and
index utilities; C19-L to overwriting what the queries returned and asking
again; C11-L to numpy's invalid/divide error state with same-signed infinities;
C16-K to arbitrary 53-bit doubles and an exact sympy round trip; C18-L to a
fixed fill pattern for fresh memory and the largest expansions; C20-K to
journeys under the retain options and column-major exponent matrices; C15-K/L
to evaluating a cancelled-to-constant polynomial with arrays and to
`symbols()` of a single name.
Round seven (15 of 22 missed at first): C14-N to other values (None, False,
"") for unknown option names; C11-M to `reshape(order=)` on column-major
polynomials, with the numpy reference given the same memory layout; C12-M/N to
index expressions with non-adjacent advanced indices on three axes and to
`aspolynomial(p, names=, dtype=)`; C18-M to every spelling (case, letter order)
of the `bindex` ordering; C19-N to the queries asked of the raw structured
storage; C13-N to a buffered reader whose `peek` returns a few bytes; C17-M/N to
0-d negative array axes and to operands whose names are listed in reverse
order; C07-M (int32 coefficients never written) to pattern-filled fresh memory
and to counting a built operand that reads back differently as a verdict in
every check; C07-N to operands of the same storage layout over different names;
C20-M/N to several differentiation variables in one call and to evaluation at
2; C15-N to items taken out by basic indexing and overwritten in place.
Round eight (13 of 22 missed at first): C11-O/P to bit-exact comparison where
numpoly hands a reduction to numpy (precision probes over narrow floats that
hold inexact numbers) and to unordered axis tuples with keepdims; C19-P and
C15-O to tiny and subnormal coefficients; C14-P to falsy values (None, 0, "")
stored in options; C18-O to negative lower bounds; C07-O to dense operands of
66-84 terms; C16-O/P to a lowered decimal context, extreme magnitudes and
complex coefficients with a tiny imaginary part; C12-O/P to exponents whose
storage key is a digit-like or whitespace character and to broadcasting along
an inner axis; C13-O/P to `skiprows` over the leading comment lines and to
explicit encodings with non-ASCII keys; C17-O to `savetxt` round trips in the
catalogue; C15-P to a float point for a cancelled-to-constant polynomial.
The evaluation-at-2 stage added to C20 after round seven exposed a genuine
defect on the unchanged tree in the multi-seed soak (§10: `q0**33` at the
Python int 2 evaluated to 0), which was repaired.
Round nine (10 of 22 missed at first): C07-Q (a comparison that enters a
`global_options` block of its own and so writes the whole option set back) to
deterministic interleaving - the selection of the sort options, or another
party's `set_options`, lands at executed line k of a running operation (C07,
C14); C14-Q/R to unknown names that look like a helper's own parameters and to
stack exhaustion a few frames around a block; C13-Q to files that lost their
last rows (never a shorter array); C18-R to norm 2 on the largest grids; C16-Q
to print / update in place / print again; C12-Q to hstack/vstack/dstack;
C17-Q/R to `copyto` with a declared output and to bool data for the functions
that only ask "is it zero"; C20-Q/R to arrays in the pickle stage, built from
attributes or composed from scalar polynomials stored in opposite term order;
C15-Q to joining monomials of one pattern over different names.
Round ten (9 of 22 missed at first): C13-S/T to a file with a numpoly header
never loading as plain numbers and to 210-term polynomials (a header line beyond
a kilobyte) - the second also exposed that the simulated streams ignored the
size argument of `readline`, a seam defect that was corrected; C11-S to
`outer` of operands that are not 1-d; C17-S to negative int64 bound arrays
handed to the index utilities; C15-S/T to a zero entry of a wider type in a
dictionary and to the monomial basis built with its defaults; C20-T to
exponent matrices in the smallest unsigned type; C12-S/T were caught without
changes.
Round eleven (8 of 22 missed at first): C18-U (default names cached across a
change of `default_varname`) to the monomial basis asked for under the shipped
name first and under another one afterwards; C13-U to arrays without elements
in the copy steps; C17-U/V to evaluation points and roots handed over as numpy
arrays; C11-U to pairs that sit between the two readings of numpy's asymmetric
closeness test; C12-U/V to `variable`/`symbols` asked for again after the
caller wrote into the first result and to an empty mapping; C07-U to accessor
results scribbled over before the comparison.
Round twelve (8 of 22 missed at first; W/X): C13-X (the header of a path read
through `linecache`, which never looks at the file again) to *the same path
written a second and a third time* - another polynomial, then a plain table -
with a load after each; it also showed that FileSeam's self-probe insisted on
seeing numpoly's own header peek through the router and so ended in a harness
error (exit 2) on that change instead of a verdict - the probe now requires
numpy's opens only; C13-W (integers read through float64 and cast back) to
`fmt="%d"` files with coefficients beyond 2**53 loaded with an integer `dtype`;
C12-X to data arriving as a raw structured array whose fields differ in type;
C17-W (a 0-d polynomial exponent shifted to zero in place) to exponents given
as constant polynomials, 0-d arrays and whole arrays of powers for a 0-d base;
C17-X was caught by catalogue entries for `remove_redundant_coefficients` /
`remove_redundant_names` added an hour earlier for exactly that gap (the
representation cleaners take bare exponent matrices and coefficient lists);
C18-X (the basis built through the option-obeying constructor) to `monomial`
asked for inside a block with other clean-up/sort options; C19-W (ranking on
float64 copies of the coefficients) to integer coefficients beyond 2**53 that
differ by one; C20-W (all-zero padding blocks never written for narrower
coefficient types) to journeys with int32/int16 coefficients under HeapSeam's
fill patterns; C20-X (a wrong inverse permutation) to `p ** [3, 1, 2]`;
C15-X (`minimum` ordered by the display options) to `minimum` and the
operators `<=`, `>`, `>=` in the twin programs (only `maximum` and `<` were
there).
Round thirteen (6 of 20 missed at first; Y/Z; no round for C15): C13-Z
(`savetxt` writing paths through a handle of its own and swallowing a failing
`close`) ended in a harness error again, for the same reason as C13-X: the path
router was installed in numpy's modules and in `numpoly.array_function.loadtxt`
only - it is now the `open` of every numpoly module, so whichever module opens
a file meets the simulated disk, and the close fault then shows the
acknowledged-but-unreadable save; C13-Y (pickle state carrying the scalar type
instead of the dtype) to coefficients in the other byte order in the pickle and
copy steps; C12-Z (dictionary terms promoted to one common type before the
cast) to dictionaries of differently typed arrays with an int64 beyond 2**53
and a requested integer dtype; C14-Z (name check skipped for a complete table)
to an unknown name arriving together with a value for every known option;
C16-Y (unit shortcut by `isclose`) to coefficients a hair away from +1/-1;
C20-Z (differentiation columns resolved once, before the loop) to directed
journeys - names stored out of order, `retain_names=False`, two differentiation
variables, the first of which disappears from every term - which promptly
reported a violation on the *unchanged* tree as well: a genuine defect
(positional indices, §10), repaired; C20-V and C20-Z were re-created on the
repaired HEAD.
Round fourteen (a short one: six properties, twelve changes, AA/AB; 6 missed
at first, 1 still is): C07-AA/AB (a `global_options` block without
`try/finally`; a refused `set_options` that had already applied its valid
keys) are C14 mechanisms seen through C07's eyes - every comparison in the C07
check *selected* its sort order and so never looked at what earlier failures
had left behind; the order is now also used *as found* after a block left by
an exception and a refused update; C16-AB (`abs()` of the most negative
integer) to the lowest value of every signed type among the printed
coefficients, C12-AA (the same wrap-around in the redundancy test of
`clean.py`) to a construction route whose only non-zero coefficients are that
value; C18-AB (keys truncated to integers) to fractional `glexsort` keys - my
first version of that generator raised a false alarm on the unchanged tree
within the minute, because the reference converted the keys to `int` before
sorting them; the reference now keeps them as they are. Extending the list of
C12 construction routes shifted the seeded choice of the others, and C12-Z was
no longer reached at seed 0; the mixed-dictionary route was given a bias
towards the 64-bit cases it exists for, and all C12 and C15 changes were run
again afterwards. **Not detected: C12-AB** (`repeat` rebuilt from
`coefficients`, which is `[]` for an array without elements, so that
`repeat(empty, 2)` returns an uninitialised 0-d polynomial): the C12 workload
has no operands without elements, because on the unchanged tree most
operations on such operands already misbehave in exactly this way (known
finding 3, §10), and a workload that reaches this change would report those as
well; it is listed in the table with own check exit 0.
After these last generator changes the changes of C12 and C15 (all of them),
C07 (A-N and W-AB) and C17 (A-P and W-Z) were run again against the final
checks - all detected; the rows of the other changes were last produced on the
machinery of round thirteen, whose generators for those checks did not change
afterwards (C16 and C18 gained draws from sub-choosers only).

'''
s = s[:start] + intro + table + "\n\n---------------------------------------------------------------------------\n\n" + s[end:]
open(p, "w").write(s)
print(len(rows), "seeds;", sum(1 for r in rows if r[2] == "1"), "caught by own check")
