"""usage: addfixed.py <property> <grep-in-commit-subject> <what failed>  -> appends a 'fixed:' line to known_findings.json"""
import json, subprocess, sys
prop, grep, what = sys.argv[1:4]
head = subprocess.run(["git", "-C", "/repo", "log", "--oneline", "-1", "--grep", grep], capture_output=True, text=True).stdout.split()[0]
d = json.load(open('/verif/known_findings.json'))
d["fixed"].append(f"fixed: property={prop} {head} {what}")
json.dump(d, open('/verif/known_findings.json', 'w'), indent=1)
print(d["fixed"][-1])
