#!/bin/bash
# Each seeded change against the check of its own property, full pipeline (minimise + fresh-interpreter replay).
WT=/tmp/wt_own
git -C /repo worktree remove --force $WT 2>/dev/null
git -C /repo worktree add -q --detach $WT HEAD || exit 1
cp /repo/numpoly/cfunctions/*.so $WT/numpoly/cfunctions/
OUT=/tmp/own_out.tsv; : > $OUT
for seed in $(ls /verif/seeded | grep -E '^C[0-9]+-'); do
  c=${seed%%-*}
  git -C $WT checkout -q -- .
  git -C $WT apply /verif/seeded/$seed/patch.diff || { echo -e "$seed\t$c\tPATCH-FAILS" >> $OUT; continue; }
  (cd /verif && VERIF_REPO=$WT PYTHONPATH=$WT timeout 1200 ./check $c --workers ${W:-8} >/tmp/own_last.txt 2>/dev/null); rc=$?
  first=$(grep -m1 "^violation:" /tmp/own_last.txt | cut -c1-400)
  hist=$(grep -c "history-dependent" /tmp/own_last.txt)
  echo -e "$seed\t$c\t$rc\t$hist\t$first" >> $OUT
done
git -C $WT checkout -q -- .
git -C /repo worktree remove --force $WT
echo done >> $OUT
