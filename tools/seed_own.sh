#!/bin/bash
# Each seeded change against the check of its own property, full pipeline (minimise + fresh-interpreter replay).
# usage: seed_own.sh [seed ids...]   (default: all);  env W = workers per check, TAG = suffix for scratch names,
# SNAP=1: run from a private copy of /verif (so that /verif can be edited meanwhile)
TAG=${TAG:-0}
WT=/tmp/wt_own_$TAG
V=/verif
if [ -n "${SNAP:-}" ]; then V=/tmp/verif_snap_$TAG; rm -rf $V; mkdir -p $V; rsync -a --exclude replays --exclude .git --exclude scratch /verif/ $V/; fi
git -C /repo worktree remove --force $WT 2>/dev/null
git -C /repo worktree add -q --detach $WT HEAD || exit 1
cp /repo/numpoly/cfunctions/*.so $WT/numpoly/cfunctions/
OUT=/tmp/own_out_$TAG.tsv; : > $OUT
seeds="$@"; [ -z "$seeds" ] && seeds=$(ls /verif/seeded | grep -E '^C[0-9]+-')
for seed in $seeds; do
  c=${seed%%-*}
  git -C $WT checkout -q -- .
  git -C $WT apply /verif/seeded/$seed/patch.diff || { echo -e "$seed\t$c\tPATCH-FAILS" >> $OUT; continue; }
  (cd $V && VERIF_REPO=$WT PYTHONPATH=$WT timeout 1500 ./check $c --workers ${W:-8} ${NOMIN:+--no-min} >/tmp/own_last_$TAG.txt 2>/dev/null); rc=$?
  first=$(grep -m1 "^violation:" /tmp/own_last_$TAG.txt | cut -c1-400)
  hist=$(grep -c "history-dependent" /tmp/own_last_$TAG.txt)
  echo -e "$seed\t$c\t$rc\t$hist\t$first" >> $OUT
done
git -C $WT checkout -q -- .
git -C /repo worktree remove --force $WT
[ -n "${SNAP:-}" ] && rm -rf $V
echo done >> $OUT
