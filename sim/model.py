"""Exact reference model: literals, canonical forms, the documented monomial
order, and the shared operand generator ("the C01 space").

Nothing in here calls a numpoly *operation*; polynomials are read only through
the three public accessors ``exponents``, ``coefficients``, ``names``.
"""
from __future__ import annotations

from typing import Any, Dict, List, Optional, Sequence, Tuple

import numpy

from . import core

NAME_POOL = ["q0", "q1", "q2", "q3", "q10", "q12"]


def name_key(name: str) -> int:
    return int(name[1:] or "0")


# ---------------------------------------------------------------------------
# literals  (JSON-able description of a polynomial array)


def lit_array(values: Any, dtype: str) -> dict:
    arr = numpy.asarray(values, dtype=dtype)
    if arr.dtype.kind == "c":
        flat = [[float(v.real), float(v.imag)] for v in arr.ravel().tolist()]
    elif arr.dtype.kind == "b":
        flat = [bool(v) for v in arr.ravel().tolist()]
    elif arr.dtype.kind == "f":
        flat = [float(v) for v in arr.ravel().tolist()]
    else:
        flat = [int(v) for v in arr.ravel().tolist()]
    return {"shape": list(arr.shape), "dtype": str(arr.dtype), "flat": flat}


def build_array(lit: dict) -> numpy.ndarray:
    dtype = numpy.dtype(lit["dtype"])
    flat = lit["flat"]
    if dtype.kind == "c":
        flat = [complex(re, im) for re, im in flat]
    arr = numpy.array(flat, dtype=dtype).reshape(lit["shape"])
    return arr


def build_poly(lit: dict) -> Any:
    """Build the ndpoly a literal describes and verify it reads back."""
    import numpoly

    dtype = numpy.dtype(lit["dtype"])
    shape = tuple(lit["shape"])
    coeffs = []
    for flat in lit["coefficients"]:
        if dtype.kind == "c":
            flat = [complex(re, im) for re, im in flat]
        coeffs.append(numpy.array(flat, dtype=dtype).reshape(shape))
    exps = numpy.array(lit["exponents"], dtype=int).reshape(len(coeffs), len(lit["names"]))
    fortran = lit.get("layout") == "F" and len(shape) >= 2
    try:
        poly = numpoly.polynomial_from_attributes(
            exponents=exps, coefficients=[c.T.copy() for c in coeffs] if fortran else coeffs, names=tuple(lit["names"]), dtype=dtype,
            retain_coefficients=bool(lit.get("retain", True)), retain_names=bool(lit.get("retain", True)),
        )
        if fortran:
            poly = poly.T  # same polynomial array, Fortran-ordered (non C-contiguous) memory
        want = lit_canon(lit)
        have = canon(poly)
        ok = poly.shape == shape and poly.dtype == dtype and canon_equal(want, have, exact=True)
    except core.SimInterrupt:
        raise
    except Exception as exc:
        raise core.Undecided(f"operand could not be built: {type(exc).__name__}") from exc
    if not ok:
        # the constructor returned normally and the object is not the polynomial that was asked for: whatever the
        # property under test says about "every polynomial" is then false for this one
        raise core.Violation("operand-construction", "polynomial_from_attributes",
                             f"asked for {canon_text(want)[:200]} ({dtype}, shape {shape}); the object reads {canon_text(have)[:200]} ({poly.dtype}, shape {poly.shape})",
                             {"dtype": str(dtype)})
    return poly


def build_value(v: Any) -> Any:
    """Build an argument from its plan description."""
    if isinstance(v, dict):
        if "poly" in v:
            return build_poly(v["poly"])
        if "array" in v:
            return build_array(v["array"])
        if "list" in v:
            return build_array(v["list"]).tolist()
        if "scalar" in v:
            s = v["scalar"]
            if isinstance(s, list):
                return complex(*s)
            return s
        if "tuple" in v:
            return tuple(build_value(x) for x in v["tuple"])
        if "seq" in v:
            return [build_value(x) for x in v["seq"]]
        if "none" in v:
            return None
        if "slice" in v:
            return slice(*v["slice"])
        if "ellipsis" in v:
            return Ellipsis
        if "newaxis" in v:
            return None
        if "index" in v:
            return tuple(build_value(x) for x in v["index"])
        if "raw" in v:
            return v["raw"]
        raise core.HarnessError(f"unknown value literal {v}")
    return v


def lit_canon(lit: dict) -> dict:
    dtype = numpy.dtype(lit["dtype"])
    shape = tuple(lit["shape"])
    out: Dict[frozenset, numpy.ndarray] = {}
    for exp, flat in zip(lit["exponents"], lit["coefficients"]):
        if dtype.kind == "c":
            flat = [complex(re, im) for re, im in flat]
        arr = numpy.array(flat, dtype=dtype).reshape(shape)
        if not numpy.any(arr != 0):
            continue
        key = frozenset((n, int(k)) for n, k in zip(lit["names"], exp) if k)
        out[key] = out[key] + arr if key in out else arr
    return out


# ---------------------------------------------------------------------------
# canonical form of an ndpoly


def canon(poly: Any) -> Dict[frozenset, numpy.ndarray]:
    try:
        names = tuple(poly.names)
        exps = numpy.asarray(poly.exponents)
        coefs = poly.coefficients
    except core.SimInterrupt:
        raise
    except Exception as exc:  # an object whose own accessors raise is not a well-formed polynomial
        raise core.Violation("wellformed", "accessors", f"reading names/exponents/coefficients raised {type(exc).__name__}: {exc}") from exc
    out: Dict[frozenset, numpy.ndarray] = {}
    if not len(coefs):
        return out
    if len(exps) != len(coefs):
        raise core.Violation("wellformed", "accessors", f"{len(exps)} exponent rows but {len(coefs)} coefficient arrays")
    for exp, coef in zip(exps.tolist(), coefs):
        coef = numpy.asarray(coef)
        if not numpy.any(coef != 0):
            continue
        if len(exp) != len(names):
            raise core.Violation("wellformed", "accessors", f"exponent width {len(exp)} != {len(names)} names")
        key = frozenset((n, int(k)) for n, k in zip(names, exp) if k)
        if key in out:
            raise core.Violation("wellformed", "accessors", f"duplicate monomial {sorted(key)}")
        out[key] = coef
    return out


def canon_equal(a: dict, b: dict, exact: bool = True, rtol: float = 1e-12) -> bool:
    if set(a) != set(b):
        return False
    for key in a:
        x, y = numpy.asarray(a[key]), numpy.asarray(b[key])
        if x.shape != y.shape:
            return False
        if exact:
            if not numpy.array_equal(x, y, equal_nan=(x.dtype.kind in "fc" and y.dtype.kind in "fc")):
                return False
        else:
            if not numpy.allclose(x, y, rtol=rtol, atol=0, equal_nan=True):
                return False
    return True


def canon_text(c: dict) -> str:
    """Deterministic rendering (for digests and details)."""
    items = []
    for key in sorted(c, key=lambda k: sorted((name_key(n), p) for n, p in k)):
        arr = numpy.asarray(c[key])
        mono = "*".join(f"{n}^{p}" for n, p in sorted(key, key=lambda t: name_key(t[0]))) or "1"
        items.append(f"{mono}:{arr.dtype}:{arr.shape}:{arr.tolist()}")
    return ";".join(items)


def poly_fingerprint(poly: Any) -> str:
    return f"{poly.shape}|{poly.dtype}|{canon_text(canon(poly))}"


def result_fingerprint(res: Any) -> str:
    """Stable text for any operation result (for digests)."""
    import numpoly

    if isinstance(res, numpoly.ndpoly):
        return "P:" + poly_fingerprint(res) + "|" + ",".join(res.names)
    if isinstance(res, numpy.ndarray):
        if res.dtype.names:
            return f"S:{res.shape}:{res.dtype.names}:{res.tobytes().hex()[:200]}"
        return f"A:{res.dtype}:{res.shape}:{res.tolist()}"
    if isinstance(res, (tuple, list)):
        return "T[" + ",".join(result_fingerprint(r) for r in res) + "]"
    if isinstance(res, dict):
        return "D{" + ",".join(f"{k}:{result_fingerprint(v)}" for k, v in sorted(res.items(), key=lambda kv: str(kv[0]))) + "}"
    if isinstance(res, numpy.generic):
        return f"G:{res.dtype}:{res.item()}"
    if isinstance(res, (int, float, complex, bool, str, type(None))):
        return f"V:{type(res).__name__}:{res}"
    return f"O:{type(res).__name__}"


# ---------------------------------------------------------------------------
# elements: dict monomial(tuple over names) -> scalar, per array element


def elements(poly: Any, names: Optional[Sequence[str]] = None) -> Tuple[Tuple[str, ...], List[Dict[tuple, Any]]]:
    """Flattened (C order) list of {exponent tuple over `names`: coefficient}."""
    pnames = tuple(poly.names)
    names = tuple(names) if names is not None else pnames
    pos = [names.index(n) for n in pnames]
    exps = numpy.asarray(poly.exponents).tolist()
    coefs = [numpy.asarray(c).ravel() for c in poly.coefficients]
    size = int(numpy.prod(poly.shape, dtype=int))
    out: List[Dict[tuple, Any]] = [dict() for _ in range(size)]
    for exp, col in zip(exps, coefs):
        full = [0] * len(names)
        for p, e in zip(pos, exp):
            full[p] = int(e)
        full_t = tuple(full)
        for i in range(size):
            v = col[i]
            if v != 0:
                out[i][full_t] = v
    return names, out


def order_key(exp: Sequence[int], graded: bool, reverse: bool) -> tuple:
    """Documented monomial order: larger key = larger monomial.

    graded: total degree first; then exponents compared from the last
    indeterminate to the first (reverse=False) or from the first to the last
    (reverse=True)."""
    tail = tuple(exp) if reverse else tuple(reversed(tuple(exp)))
    return ((sum(exp),) if graded else ()) + tail


def compare_elements(a: Dict[tuple, Any], b: Dict[tuple, Any], graded: bool, reverse: bool) -> int:
    """-1, 0, 1 by the documented order: coefficient at the largest monomial at
    which the two differ (absent = 0)."""
    keys = set(a) | set(b)
    diff = [k for k in keys if a.get(k, 0) != b.get(k, 0)]
    if not diff:
        return 0
    top = max(diff, key=lambda k: order_key(k, graded, reverse))
    x, y = a.get(top, 0), b.get(top, 0)
    return -1 if x < y else 1


def lead(a: Dict[tuple, Any], nvars: int, graded: bool, reverse: bool) -> Tuple[tuple, Any]:
    if not a:
        return (0,) * nvars, 0
    top = max(a, key=lambda k: order_key(k, graded, reverse))
    return top, a[top]


# ---------------------------------------------------------------------------
# generator: the C01 space

SHAPES = [(), (1,), (2,), (3,), (1, 2), (2, 1), (2, 2), (2, 3), (1, 2, 2), (2, 1, 3), (2, 2, 2)]


def gen_names(ch: core.Chooser, lo: int = 1, hi: int = 3, pool: Sequence[str] = NAME_POOL) -> List[str]:
    k = ch.between(lo, hi)
    picked = ch.sample(list(pool), k)
    return sorted(picked, key=name_key)


def gen_coeff_values(ch: core.Chooser, n: int, kind: str) -> list:
    out = []
    for _ in range(n):
        if kind == "int":
            out.append(ch.choice([-3, -2, -1, -1, 0, 0, 1, 1, 2, 3]))
        elif kind == "posint":
            out.append(ch.choice([0, 1, 1, 2, 3]))
        elif kind == "float":
            out.append(ch.choice([-2.5, -1.0, -0.75, -0.25, 0.0, 0.0, -0.0, 0.25, 1.0, 1.5, 1e-05, 3.0, 1.0 / 3]))
        elif kind == "complex":
            out.append(complex(ch.choice([-2, -1, 0, 0, 1, 1.5]), ch.choice([-1, 0, 0, 1, 2.5])))
        elif kind == "bool":
            out.append(ch.choice([True, False, True]))
        else:
            raise core.HarnessError(kind)
    return out


def gen_poly(
    ch: core.Chooser,
    names: Optional[Sequence[str]] = None,
    shape: Optional[tuple] = None,
    kind: Optional[str] = None,
    max_terms: int = 6,
    max_exp: int = 3,
    same_degree: Optional[int] = None,
    dtype: Optional[str] = None,
    allow_redundant: bool = True,
    min_terms: int = 0,
) -> dict:
    """A polynomial literal. `same_degree`: generate that many terms sharing one
    total degree (the sort-tie situation)."""
    names = list(names) if names is not None else gen_names(ch)
    shape = tuple(shape) if shape is not None else ch.choice(SHAPES)
    kind = kind or ch.weighted([(5, "int"), (3, "float")])
    if dtype is None:
        dtype = {"int": "int64", "posint": "int64", "float": "float64", "complex": "complex128", "bool": "bool"}[kind]
    size = int(numpy.prod(shape, dtype=int))
    nv = len(names)
    exps: List[tuple] = []
    if same_degree:
        deg = ch.between(1, max(1, min(4, max_exp + 1)))
        tries = 0
        while len(exps) < same_degree and tries < 60:
            tries += 1
            cuts = sorted(ch.below(deg + 1) for _ in range(nv - 1))
            parts = [b - a for a, b in zip([0] + cuts, cuts + [deg])]
            t = tuple(parts)
            if t not in exps:
                exps.append(t)
        extra = ch.below(3)
    else:
        extra = ch.between(min_terms, max_terms)
    tries = 0
    target = len(exps) + extra
    while len(exps) < target and tries < 60:
        tries += 1
        if ch.chance(0.15):
            t = (0,) * nv
        else:
            t = tuple(ch.choice([0, 0, 1, 1, 2, max_exp]) for _ in range(nv))
        if t not in exps:
            exps.append(t)
    if not exps:
        exps = [(0,) * nv]
    coefficients = []
    for _ in exps:
        col = gen_coeff_values(ch, size, kind)
        if allow_redundant and ch.chance(0.08):
            col = [type(col[0])(0)] * size if size else col
        coefficients.append(col)
    exps = ch.shuffle(exps)
    lit = {
        "names": list(names),
        "shape": list(shape),
        **({"layout": "F"} if len(shape) >= 2 and ch.chance(0.12) else {}),
        "dtype": dtype,
        "exponents": [list(e) for e in exps],
        "coefficients": [_jsonable(col, kind) for col in coefficients],
        "retain": True if allow_redundant else False,
    }
    return lit


def _jsonable(col: list, kind: str) -> list:
    if kind == "complex":
        return [[float(v.real), float(v.imag)] for v in col]
    if kind == "bool":
        return [bool(v) for v in col]
    if kind == "float":
        return [float(v) for v in col]
    return [int(v) for v in col]


def gen_constant(ch: core.Chooser, shape: Optional[tuple] = None, kind: str = "int", names: Optional[Sequence[str]] = None) -> dict:
    shape = tuple(shape) if shape is not None else ch.choice(SHAPES)
    names = list(names) if names is not None else ["q0"]
    size = int(numpy.prod(shape, dtype=int))
    dtype = {"int": "int64", "float": "float64", "complex": "complex128", "bool": "bool"}[kind]
    return {"names": names, "shape": list(shape), "dtype": dtype, "exponents": [[0] * len(names)],
            "coefficients": [_jsonable(gen_coeff_values(ch, size, kind), kind)], "retain": True}


def broadcast_partner_shape(ch: core.Chooser, shape: tuple) -> tuple:
    """A shape broadcast-compatible with `shape`."""
    options = [shape, ()]
    if shape:
        options.append(shape[-1:])
        options.append(tuple(1 if ch.chance(0.5) else s for s in shape))
        options.append((2,) + shape if len(shape) < 3 else shape)
        options.append((1,) + shape if len(shape) < 3 else shape)
    else:
        options += [(2,), (1,), (2, 2)]
    return tuple(ch.choice(options))


def lit_shrinks(lit: dict):
    """Simpler variants of a polynomial literal (for the minimiser)."""
    nterms = len(lit["exponents"])
    size = int(numpy.prod(lit["shape"], dtype=int))
    if lit.get("layout"):
        yield {k: v for k, v in lit.items() if k != "layout"}
    # drop a term
    if nterms > 1:
        for i in range(nterms):
            yield dict(lit, exponents=lit["exponents"][:i] + lit["exponents"][i + 1:], coefficients=lit["coefficients"][:i] + lit["coefficients"][i + 1:])
    # collapse shape to 0-d / first element
    if lit["shape"]:
        yield dict(lit, shape=[], coefficients=[[c[0]] if c else [0] for c in lit["coefficients"]]) if size else lit
        if size > 1 and len(lit["shape"]) == 1:
            yield dict(lit, shape=[size - 1], coefficients=[c[:-1] for c in lit["coefficients"]])
    # drop a name whose column is all zero
    if len(lit["names"]) > 1:
        for j in range(len(lit["names"])):
            if all(e[j] == 0 for e in lit["exponents"]):
                yield dict(lit, names=lit["names"][:j] + lit["names"][j + 1:], exponents=[e[:j] + e[j + 1:] for e in lit["exponents"]])
    # lower exponents
    for i, e in enumerate(lit["exponents"]):
        for j, v in enumerate(e):
            if v > 1:
                ne = list(e)
                ne[j] = v - 1
                if ne not in lit["exponents"]:
                    yield dict(lit, exponents=lit["exponents"][:i] + [ne] + lit["exponents"][i + 1:])
