"""Core of the deterministic simulator: counter-based choices, traces, digests.

One integer decides everything.  No decision is ever drawn from a shared lazy
stream, from a clock, from ``random``, ``os.urandom``, ``id()`` or from the
iteration order of a set of strings: every decision is ``H(run_seed, site...)``.
"""
from __future__ import annotations

import hashlib
import json
from typing import Any, Iterable, List, Sequence


def H(*parts: Any) -> int:
    """64-bit hash of the decimal/str rendering of ``parts`` (SHA-256 prefix)."""
    data = "\x1f".join(str(p) for p in parts).encode("utf-8", "surrogatepass")
    return int.from_bytes(hashlib.sha256(data).digest()[:8], "big")


def run_seed(verif_seed: int, prop: str, index: int) -> int:
    return H("run", verif_seed, prop, index)


class Chooser:
    """Deterministic choice site.

    ``Chooser(run_seed, "plan", i)`` yields the sequence
    ``H(run_seed, "plan", i, 0), H(run_seed, "plan", i, 1), ...``; independent
    sites never share state, so removing one step of a plan never perturbs the
    decisions of another.
    """

    __slots__ = ("prefix", "n")

    def __init__(self, *prefix: Any) -> None:
        self.prefix = prefix
        self.n = 0

    def sub(self, *more: Any) -> "Chooser":
        return Chooser(*self.prefix, *more)

    def u64(self) -> int:
        value = H(*self.prefix, self.n)
        self.n += 1
        return value

    def below(self, n: int) -> int:
        assert n > 0
        return self.u64() % n

    def between(self, lo: int, hi: int) -> int:
        """Inclusive on both ends."""
        return lo + self.below(hi - lo + 1)

    def chance(self, p: float) -> bool:
        return (self.u64() >> 11) / float(1 << 53) < p

    def choice(self, seq: Sequence[Any]) -> Any:
        return seq[self.below(len(seq))]

    def weighted(self, pairs: Sequence[tuple]) -> Any:
        """pairs: (weight:int, value)."""
        total = sum(w for w, _ in pairs)
        x = self.below(total)
        for w, v in pairs:
            if x < w:
                return v
            x -= w
        raise AssertionError

    def shuffle(self, items: Iterable[Any]) -> List[Any]:
        out = list(items)
        for i in range(len(out) - 1, 0, -1):
            j = self.below(i + 1)
            out[i], out[j] = out[j], out[i]
        return out

    def sample(self, seq: Sequence[Any], k: int) -> List[Any]:
        return self.shuffle(seq)[:k]

    def bytes(self, n: int) -> bytes:
        out = bytearray()
        while len(out) < n:
            out += hashlib.sha256(
                ("\x1f".join(str(p) for p in self.prefix) + f"\x1f{self.n}").encode()
            ).digest()
            self.n += 1
        return bytes(out[:n])


class Violation(Exception):
    """The oracle says the property does not hold (never used for harness trouble)."""

    def __init__(self, clause: str, op: str, detail: str, where: dict | None = None, step: Any = None):
        super().__init__(f"{clause} @ {op}: {detail}")
        self.clause = clause
        self.op = op
        self.detail = detail
        self.where = dict(where or {})
        self.step = step

    def record(self) -> dict:
        return {
            "clause": self.clause,
            "op": self.op,
            "where": self.where,
            "step": self.step,
            "detail": self.detail[:600],
        }


class HarnessError(Exception):
    """The harness itself is confused (seam self-probe failed, replay mismatch, ...)."""


class Undecided(Exception):
    """The oracle cannot decide this step (budget, unbuildable operand, numpy rejects)."""

    def __init__(self, reason: str):
        super().__init__(reason)
        self.reason = reason


class SimInterrupt(BaseException):
    """Asynchronous exception injected by the FaultSeam (like KeyboardInterrupt)."""


def vclass(rec: dict) -> tuple:
    """Violation class: what must persist while minimising."""
    return (rec["clause"], rec["op"], tuple(sorted((k, json.dumps(v, sort_keys=True)) for k, v in rec.get("where", {}).items())))


def jdump(obj: Any) -> str:
    return json.dumps(obj, sort_keys=True, separators=(",", ":"), default=_default)


def _default(obj: Any) -> Any:
    import numpy

    if isinstance(obj, numpy.generic):
        return obj.item()
    if isinstance(obj, numpy.ndarray):
        return obj.tolist()
    if isinstance(obj, (set, frozenset)):
        return sorted(obj)
    if isinstance(obj, bytes):
        return obj.hex()
    if isinstance(obj, complex):
        return [obj.real, obj.imag]
    return repr(obj)


def digest(events: Any) -> str:
    return hashlib.sha256(jdump(events).encode()).hexdigest()


def through_numpoly(exc: BaseException, numpoly_dir: str) -> bool:
    """Did the exception propagate out of numpoly code (as opposed to being a
    bug of the harness itself)?"""
    tb = exc.__traceback__
    while tb is not None:
        if tb.tb_frame.f_code.co_filename.startswith(numpoly_dir):
            return True
        tb = tb.tb_next
    return False
