"""Batch runner: seeded search, minimisation, replay, known findings, evidence."""
from __future__ import annotations

import collections
import concurrent.futures as cf
import faulthandler
import importlib
import json
import multiprocessing
import os
import signal
import subprocess
import sys
import time
import traceback
from typing import Any, Dict, List, Optional

from . import core

VERIF = os.path.dirname(os.path.dirname(os.path.abspath(__file__)))
REPO = os.environ.get("VERIF_REPO", "/repo")
NUMPOLY_DIR = os.path.join(REPO, "numpoly") + os.sep

PROPS = {
    "C07": "c07", "C11": "c11", "C12": "c12", "C13": "c13", "C14": "c14", "C15": "c15",
    "C16": "c16", "C17": "c17", "C18": "c18", "C19": "c19", "C20": "c20",
}

RUN_WALL_CAP_S = 60  # per run; a run that needs longer is undecided(timeout), never a verdict


def load_prop(pid: str):
    return importlib.import_module(f"sim.props.{PROPS[pid]}")


# --------------------------------------------------------------------------
# one run


class _RunTimeout(BaseException):
    pass


def _alarm(signum, frame):  # pragma: no cover - only pathological runs
    raise _RunTimeout()


def exec_plan_here(pid: str, path: str) -> int:
    """Child side of a run that asked for another interpreter configuration (e.g. -O)."""
    prop = load_prop(pid)
    prepare(prop)
    with open(path) as src:
        plan = json.load(src)
    result = execute_plan(prop, plan, nested=True)
    print("RESULT " + json.dumps(result, default=core._default), flush=True)
    return 0


def _execute_in_interpreter(prop, plan: dict) -> dict:
    """A run whose plan asks for interpreter flags (`python -O`: asserts stripped, __debug__ False) is executed in a
    fresh interpreter started that way; everything else about the run is the same."""
    import subprocess
    import tempfile

    flags = list(plan["interpreter"])
    with tempfile.NamedTemporaryFile("w", suffix=".json", delete=False) as dst:
        json.dump(plan, dst, default=core._default)
        path = dst.name
    try:
        env = dict(os.environ, VERIF_NO_REEXEC="1", PYTHONHASHSEED=os.environ.get("PYTHONHASHSEED", "0"))
        proc = subprocess.run([sys.executable] + flags + [os.path.join(VERIF, "check"), prop.ID, "--exec-plan", path], capture_output=True, text=True, env=env, timeout=RUN_WALL_CAP_S * 2)
    except subprocess.TimeoutExpired:
        return {"violations": [], "events": [["run-timeout"]], "stats": {"undecided:run-timeout": 1}, "sigs": []}
    finally:
        os.unlink(path)
    for line in proc.stdout.splitlines()[::-1]:
        if line.startswith("RESULT "):
            result = json.loads(line[7:])
            result["stats"]["probe:ran_in_interpreter_" + "".join(flags)] = 1
            return result
    raise core.HarnessError(f"interpreter {flags} produced no result: {proc.stderr[-400:]}")


def execute_plan(prop, plan: dict, nested: bool = False) -> dict:
    """Execute one plan under the run wall cap; never lets an exception escape
    except HarnessError."""
    if plan.get("interpreter") and not nested:
        result = _execute_in_interpreter(prop, plan)
        result["digest"] = core.digest(result["events"])
        return result
    old = signal.signal(signal.SIGALRM, _alarm)
    signal.setitimer(signal.ITIMER_REAL, RUN_WALL_CAP_S)
    try:
        result = prop.execute(plan)
    except core.Violation as exc:
        # an oracle verdict that escaped the property's own bookkeeping (e.g. a result whose accessors raise)
        sys.settrace(None)
        result = {"violations": [exc.record()], "events": [["escaped-violation", exc.clause, exc.op]], "stats": {"decided": 1}, "sigs": []}
    except _RunTimeout:
        sys.settrace(None)
        result = {"violations": [], "events": [["run-timeout"]], "stats": {"undecided:run-timeout": 1}, "sigs": []}
    finally:
        signal.setitimer(signal.ITIMER_REAL, 0)
        signal.signal(signal.SIGALRM, old)
    result.setdefault("violations", [])
    result.setdefault("events", [])
    result.setdefault("stats", {})
    result.setdefault("sigs", [])
    result["digest"] = core.digest(result["events"])
    return result


def in_child(func, *args):
    """Run func(*args) in a forked child (pristine copy of this process) and
    return ("ok", result) | ("exc", text) | ("crashed", wait status)."""
    import pickle

    rfd, wfd = os.pipe()
    child = os.fork()
    if child == 0:
        code = 0
        try:
            os.close(rfd)
            try:
                data = pickle.dumps(("ok", func(*args)))
            except BaseException as exc:  # noqa: BLE001
                data = pickle.dumps(("exc", f"{type(exc).__name__}: {exc}\n{traceback.format_exc()}"))
            with os.fdopen(wfd, "wb") as dst:
                dst.write(data)
        except BaseException:  # noqa: BLE001
            code = 3
        finally:
            os._exit(code)
    os.close(wfd)
    with os.fdopen(rfd, "rb") as src:
        data = src.read()
    _, status = os.waitpid(child, 0)
    if not data:
        return ("crashed", status)
    return pickle.loads(data)


def isolated_execute(pid: str, plan: dict, prefix=None) -> Optional[dict]:
    """Execute `prefix` plans and then `plan` in one pristine forked child."""

    def job():
        prop = load_prop(pid)
        for pre in prefix or []:
            execute_plan(prop, json.loads(json.dumps(pre, default=core._default)))
        return execute_plan(prop, plan)

    status, value = in_child(job)
    if status != "ok":
        return None
    return value


def _worker_chunk(args) -> list:
    """One chunk = one pristine forked child: the history a run can depend on
    is exactly the runs of its own chunk that precede it."""
    status, value = in_child(_chunk_body, args)
    if status == "ok":
        return value
    if status == "exc":
        return [{"index": args[3][0], "harness_error": value}]
    prop = load_prop(args[0])
    hung = value == 256  # exit code 1: the watchdog (faulthandler) ended a run that sat in one C call beyond the wall cap
    if getattr(prop, "CRASH_IS_UNDECIDED", False) or hung:
        # the code under test can corrupt memory (C12), or one run hung: rerun the chunk one run per child and
        # attribute the death to the run that causes it - that run is undecided, never a verdict
        out = []
        for index in args[3]:
            st, val = in_child(_chunk_body, (args[0], args[1], args[2], [index]))
            if st == "ok":
                out.extend(val)
            elif st == "exc" or (val != 256 and not getattr(prop, "CRASH_IS_UNDECIDED", False)):
                out.append({"index": index, "harness_error": f"run child died (wait status {val})"})
            elif val == 256:
                out.append({"index": index, "rs": core.run_seed(args[1], args[0], index), "digest": "timeout", "violations": [],
                            "stats": {"undecided:run-timeout": 1}, "sigs": [], "nsteps": 0, "chunk_start": index})
            else:
                out.append({"index": index, "rs": core.run_seed(args[1], args[0], index), "digest": "crashed", "violations": [],
                            "stats": {"undecided:crashed": 1}, "sigs": [], "nsteps": 0, "chunk_start": index})
        return out
    return [{"index": args[3][0], "harness_error": f"chunk child died (wait status {value})"}]


def _chunk_body(args) -> list:
    pid, verif_seed, tier, indices = args
    prop = load_prop(pid)
    out = []
    for index in indices:
        faulthandler.dump_traceback_later(RUN_WALL_CAP_S * 3, exit=True)
        rs = core.run_seed(verif_seed, pid, index)
        try:
            plan = prop.generate(rs, tier, index)
            result = execute_plan(prop, plan)
        except core.HarnessError as exc:
            out.append({"index": index, "harness_error": f"{exc}\n{traceback.format_exc()}"})
            continue
        except Exception as exc:  # a bug in the harness, not a verdict
            out.append({"index": index, "harness_error": f"{type(exc).__name__}: {exc}\n{traceback.format_exc()}"})
            continue
        finally:
            faulthandler.cancel_dump_traceback_later()
        item = {
            "index": index,
            "rs": rs,
            "digest": result["digest"],
            "violations": result["violations"],
            "stats": result["stats"],
            "sigs": [core.H(s) for s in result["sigs"]],
            "nsteps": len(plan.get("steps", [])),
        }
        item["chunk_start"] = indices[0]
        if result["violations"] or index < 3:
            item["plan"] = plan
        out.append(item)
    return out


# --------------------------------------------------------------------------
# known findings


def load_known() -> dict:
    path = os.path.join(VERIF, "known_findings.json")
    if not os.path.exists(path):
        return {"findings": [], "fixed": []}
    with open(path) as src:
        return json.load(src)


def match_known(pid: str, rec: dict, known: dict) -> Optional[dict]:
    for entry in known.get("findings", []):
        if entry.get("property") != pid:
            continue
        if entry.get("op") not in (None, rec["op"]):
            continue
        if entry.get("clause") not in (None, rec["clause"]):
            continue
        ok = True
        for key, want in entry.get("where", {}).items():
            have = rec.get("where", {}).get(key)
            if isinstance(want, list):
                ok &= have in want
            else:
                ok &= have == want
        if ok:
            return entry
    return None


# --------------------------------------------------------------------------
# minimisation


def _still_fails(prop, plan: dict, target: tuple, prefix=None) -> Optional[dict]:
    result = isolated_execute(prop.ID, plan, prefix)
    if result is None:
        return None
    for rec in result["violations"]:
        if core.vclass(rec) == target:
            return result
    return None


def minimise(pid: str, plan: dict, target: tuple, budget_s: float = 60.0, prefix=None) -> dict:
    """ddmin over the step list, then property-specific simplifications.
    Every candidate runs in its own pristine child, so an accepted candidate
    fails on its own (plus `prefix`), not thanks to state left by an earlier one."""
    prop = load_prop(pid)
    t_end = time.time() + budget_s
    best = plan
    tries = 0

    def attempt(candidate: dict) -> bool:
        nonlocal best, tries
        tries += 1
        if _still_fails(prop, candidate, target, prefix) is not None:
            best = candidate
            return True
        return False

    # 1. ddmin on steps
    steps = list(best.get("steps", []))
    n = 2
    while len(steps) >= 2 and time.time() < t_end:
        chunk = max(1, len(steps) // n)
        reduced = False
        for start in range(0, len(steps), chunk):
            cand_steps = steps[:start] + steps[start + chunk:]
            if not cand_steps:
                continue
            cand = dict(best, steps=cand_steps)
            if hasattr(prop, "repair_plan"):
                cand = prop.repair_plan(cand)
                if cand is None:
                    continue
            if attempt(cand):
                steps = list(best["steps"])
                n = max(n - 1, 2)
                reduced = True
                break
            if time.time() > t_end:
                break
        if not reduced:
            if chunk == 1:
                break
            n = min(n * 2, len(steps))
    # 2. property specific
    if hasattr(prop, "simplify"):
        progress = True
        while progress and time.time() < t_end:
            progress = False
            for cand in prop.simplify(best):
                if time.time() > t_end:
                    break
                if attempt(cand):
                    progress = True
                    break
    best = dict(best)
    best["minimiser"] = {"tries": tries, "steps_before": len(plan.get("steps", [])), "steps_after": len(best.get("steps", []))}
    return best




# --------------------------------------------------------------------------
# replay


def repo_state() -> dict:
    def git(*a):
        try:
            return subprocess.run(["git", "-C", REPO, *a], capture_output=True, text=True, timeout=30).stdout
        except Exception:
            return ""

    import hashlib

    return {"path": REPO, "head": git("rev-parse", "--short", "HEAD").strip(), "diff_sha": hashlib.sha256(git("diff").encode()).hexdigest()[:16],
            "dirty": bool(git("diff").strip())}


def write_replay(pid: str, plan: dict, rec: dict, dig: str, tier: str, prefix=None) -> str:
    os.makedirs(os.path.join(VERIF, "replays"), exist_ok=True)
    tag = "%08x" % (core.H(*core.vclass(rec)) & 0xFFFFFFFF)
    path = os.path.join(VERIF, "replays", f"{pid}-{plan.get('run_seed', 0)}-{tag}.json")
    doc = {"format": 1, "property": pid, "run_seed": plan.get("run_seed"), "tier": tier, "plan": plan,
           "violation": rec, "digest": dig, "repo": repo_state(),
           "hashseed": os.environ.get("PYTHONHASHSEED", ""), "prefix": prefix or []}
    with open(path, "w") as dst:
        json.dump(doc, dst, indent=1, sort_keys=True, default=core._default)
    return path


def replay(pid: str, path: str) -> int:
    with open(path) as src:
        doc = json.load(src)
    if doc.get("property") != pid:
        print(f"replay file is for {doc.get('property')}, not {pid}")
        return 2
    prop = load_prop(pid)
    prepare(prop)
    for pre in doc.get("prefix", []):  # history-dependent violation: earlier runs of the same process
        execute_plan(prop, pre)
    result = execute_plan(prop, doc["plan"])
    print(f"REPLAY-DIGEST {result['digest']}")
    want = core.vclass(doc["violation"]) if doc.get("violation") else None
    for rec in result["violations"]:
        if want is None or core.vclass(rec) == want:
            print(f"REPLAY-VIOLATION {json.dumps(rec, sort_keys=True, default=core._default)}")
            print(f"VIOLATION property={pid} replay={path}")
            return 1
    print("replay: no violation reproduced")
    return 0


# --------------------------------------------------------------------------
# rebuild step


def rebuild() -> List[str]:
    """Recompile cfunctions/*.c -> .so when a .c is newer than its .so; report
    what cannot be rebuilt.  Python sources are live (editable install)."""
    notes = []
    cdir = os.path.join(REPO, "numpoly", "cfunctions")
    import sysconfig

    suffix = sysconfig.get_config_var("EXT_SUFFIX")
    for base in ("cvalues", "cfrom_attributes", "cmultiply"):
        c = os.path.join(cdir, base + ".c")
        pyx = os.path.join(cdir, base + ".pyx")
        so = os.path.join(cdir, base + suffix)
        if os.path.exists(pyx) and os.path.exists(c) and os.path.getmtime(pyx) > os.path.getmtime(c) + 1:
            notes.append(f"{base}.pyx is newer than {base}.c but Cython is not installed: running the existing binary")
        if os.path.exists(c) and (not os.path.exists(so) or os.path.getmtime(c) > os.path.getmtime(so) + 1):
            import numpy

            cmd = ["gcc", "-shared", "-fPIC", "-O2", "-w", "-I", sysconfig.get_paths()["include"], "-I", numpy.get_include(), c, "-o", so]
            proc = subprocess.run(cmd, capture_output=True, text=True)
            if proc.returncode != 0:
                raise core.HarnessError(f"cannot rebuild {base}: {proc.stderr[-500:]}")
            notes.append(f"rebuilt {base}{suffix} from {base}.c")
    return notes


def prepare(prop) -> None:
    import numpoly  # noqa: F401  (from /repo's working tree)

    path = os.path.abspath(numpoly.__file__)
    if not path.startswith(os.path.abspath(REPO) + os.sep):
        raise core.HarnessError(f"numpoly imported from {path}, expected under {REPO}")
    if hasattr(prop, "setup"):
        prop.setup()


# --------------------------------------------------------------------------
# evidence


def validate_evidence(doc: dict) -> None:
    schema_path = "/root/.vp/EVIDENCE.schema.json"
    try:
        sys.path.insert(0, os.path.join(VERIF, ".deps"))
        import jsonschema  # type: ignore

        with open(schema_path) as src:
            jsonschema.validate(doc, json.load(src))
        return
    except ImportError:
        pass
    except FileNotFoundError:
        pass
    finally:
        if sys.path and sys.path[0].endswith(".deps"):
            sys.path.pop(0)
    # minimal in-house validation of what the schema requires for our levels
    for key in ("property_id", "tier", "seed", "level", "coverage", "wall_s"):
        assert key in doc, key
    cov = doc["coverage"]
    assert isinstance(cov["evaluations"], int) and cov["evaluations"] >= 1
    assert isinstance(cov["distinct_nontrivial"], int) and cov["distinct_nontrivial"] >= 2
    assert isinstance(cov["rule"], str)
    assert isinstance(cov["samples"], list) and cov["samples"]


# --------------------------------------------------------------------------
# main batch


def run_batch(pid: str, tier: str, verif_seed: int, runs: Optional[int], workers: int, no_min: bool = False) -> int:
    t0 = time.time()
    prop = load_prop(pid)
    notes = rebuild()
    prepare(prop)
    known = load_known()
    nruns = runs if runs is not None else prop.budget(tier)
    chunk = getattr(prop, "CHUNK", 20)  # fixed: the history of a run must not depend on the worker count
    tasks = [(pid, verif_seed, tier, list(range(s, min(s + chunk, nruns)))) for s in range(0, nruns, chunk)]

    stats: collections.Counter = collections.Counter()
    sigs = set()
    digests = []
    violating: List[dict] = []
    samples: List[dict] = []
    harness_errors: List[str] = []
    total_steps = 0
    wall_cap = float(os.environ.get("VERIF_WALL_CAP", "0") or 0) or (prop.wall_cap(tier) if hasattr(prop, "wall_cap") else (600 if tier == "quick" else 7200))
    done_runs = 0
    ctx = multiprocessing.get_context("fork")
    try:
        with cf.ProcessPoolExecutor(max_workers=workers, mp_context=ctx) as pool:
            futures = [pool.submit(_worker_chunk, t) for t in tasks]
            try:
                for fut in cf.as_completed(futures, timeout=wall_cap):
                    for item in fut.result():
                        if "harness_error" in item:
                            harness_errors.append(item["harness_error"])
                            continue
                        done_runs += 1
                        total_steps += item["nsteps"]
                        stats.update(item["stats"])
                        sigs.update(item["sigs"])
                        digests.append((item["index"], item["digest"]))
                        if item["violations"]:
                            violating.append(item)
                        if "plan" in item and item["index"] < 3:
                            samples.append(item["plan"])
            except cf.TimeoutError:
                for fut in futures:
                    fut.cancel()
                for proc in list(getattr(pool, "_processes", {}).values()):
                    proc.kill()
                if not violating:
                    print(f"HARNESS-ERROR batch exceeded wall cap {wall_cap}s", flush=True)
                    return 2
                # violations seen before the cap are still reported (a change that makes the library hang as well as
                # misbehave must not turn a verdict into a harness error)
                print(f"note: batch exceeded wall cap {wall_cap}s after {done_runs} runs; reporting what was found", flush=True)
    except cf.process.BrokenProcessPool as exc:
        print(f"HARNESS-ERROR worker died: {exc}", flush=True)
        return 2

    if harness_errors and not any(item["violations"] for item in violating):
        print("HARNESS-ERROR", len(harness_errors), "runs failed inside the harness; first:\n", harness_errors[0], flush=True)
        return 2
    if harness_errors:
        print("note:", len(harness_errors), "runs failed inside the harness (reported after the violations); first:\n", harness_errors[0][:600], flush=True)

    # classify violations
    unknown: Dict[tuple, dict] = {}
    known_hits: Dict[str, int] = collections.Counter()
    nviol = 0
    for item in violating:
        for rec in item["violations"]:
            nviol += 1
            entry = match_known(pid, rec, known)
            if entry is not None:
                known_hits[entry["what"]] += 1
                continue
            key = core.vclass(rec)
            cur = unknown.get(key)
            size = len(json.dumps(item["plan"], default=core._default))
            if cur is None or size < cur["size"]:
                unknown[key] = {"plan": item["plan"], "rec": rec, "size": size, "index": item["index"], "chunk_start": item["chunk_start"]}

    for what, count in sorted(known_hits.items()):
        print(f"KNOWN-FINDING: property={pid} {what} (seen {count}x)", flush=True)

    exit_code = 0
    reported = []
    if unknown and os.environ.get("VERIF_TRIAGE"):
        for key, info in sorted(unknown.items(), key=lambda kv: (kv[0][1], kv[0][0])):
            print(f"TRIAGE {key[0]} @ {key[1]} {dict(key[2])}: {info['rec']['detail'][:400]}")
            print("   plan:", json.dumps(info["plan"].get("steps"), default=core._default)[:700])
        return 1
    unreproducible = 0
    if unknown:
        limit = 4
        for key, info in sorted(unknown.items(), key=lambda kv: kv[1]["size"]):
            if len(reported) >= limit or unreproducible >= 3 * limit:
                break
            plan = info["plan"]
            prefix: List[dict] = []
            budget_s = 45.0 if tier == "quick" else 180.0
            alone = _still_fails(prop, plan, key)
            if alone is None:
                # not reproducible on its own: does it depend on the runs that preceded it in its chunk?
                prefix = [prop.generate(core.run_seed(verif_seed, pid, i), tier, i) for i in range(info["chunk_start"], info["index"])]
                if not prefix or _still_fails(prop, plan, key, prefix) is None:
                    print(f"note: violation {key[0]}@{key[1]} of run index {info['index']} does not reproduce in a pristine process, neither alone nor after the {len(prefix)} preceding runs of its chunk (not reported)", flush=True)
                    unreproducible += 1
                    continue
                # shrink the history greedily
                t_end = time.time() + budget_s
                i = 0
                while i < len(prefix) and time.time() < t_end:
                    cand = prefix[:i] + prefix[i + 1:]
                    if _still_fails(prop, plan, key, cand) is not None:
                        prefix = cand
                    else:
                        i += 1
            if not no_min:
                try:
                    plan = minimise(pid, plan, key, budget_s, prefix or None)
                except Exception as exc:  # keep the unminimised plan
                    print(f"note: minimiser failed ({type(exc).__name__}: {exc}); reporting the original plan", flush=True)
            result = isolated_execute(pid, plan, prefix or None)
            if result is None:
                print("HARNESS-ERROR final execution of the minimised plan crashed", flush=True)
                return 2
            rec = next((r for r in result["violations"] if core.vclass(r) == key), info["rec"])
            path = write_replay(pid, plan, rec, result["digest"], tier, prefix)
            # confirmation in a fresh interpreter
            env = {k: v for k, v in os.environ.items() if k not in ("PYTHONHASHSEED", "VERIF_NO_REEXEC")}
            proc = subprocess.run([sys.executable, os.path.join(VERIF, "check"), pid, "--replay", path], capture_output=True, text=True, env=env, timeout=900)
            ok = proc.returncode == 1 and f"REPLAY-DIGEST {result['digest']}" in proc.stdout
            if not ok:
                print(f"HARNESS-ERROR replay of {path} did not reproduce in a fresh interpreter (rc={proc.returncode})\n{proc.stdout[-800:]}\n{proc.stderr[-800:]}", flush=True)
                return 2
            print(f"violation: {json.dumps(rec, sort_keys=True, default=core._default)}" + (f" [history-dependent: needs {len(prefix)} earlier run(s) in the same process]" if prefix else ""), flush=True)
            print(f"VIOLATION property={pid} replay={path}", flush=True)
            reported.append(path)
            exit_code = 1
        if len(unknown) > limit:
            print(f"note: {len(unknown) - limit} further violation classes not minimised: " + "; ".join(f"{k[0]}@{k[1]}" for k in list(unknown)[limit:limit + 10]), flush=True)

    wall = time.time() - t0
    evaluations = int(stats.get("decided", 0)) or done_runs
    digests.sort()
    batch_digest = core.digest(digests)
    per_hour = 3600.0 / wall if wall > 0 else 0.0
    coverage = {
        "evaluations": evaluations,
        "distinct_nontrivial": len(sigs),
        "rule": prop.RULE,
        "samples": [_compact(s) for s in samples[:3]] or [{"note": "no sample"}],
        "exhaustive": False,
        "runs": done_runs,
        "steps": total_steps,
        "runs_per_hour": round(done_runs * per_hour),
        "seeds_per_hour": round(done_runs * per_hour),
        "simulated_time": "numpoly has no clock: logical time only (steps, traced line events, seam consults)",
        "traced_line_events": int(stats.get("traced_lines", 0)),
        "faults": {k[len("fault:"):]: v for k, v in sorted(stats.items()) if k.startswith("fault:")},
        "seams": {k[len("seam:"):]: v for k, v in sorted(stats.items()) if k.startswith("seam:")},
        "probes": {k[len("probe:"):]: v for k, v in sorted(stats.items()) if k.startswith("probe:")},
        "undecided": {k[len("undecided:"):]: v for k, v in sorted(stats.items()) if k.startswith("undecided:")},
        "per_op": {k[len("op:"):]: v for k, v in sorted(stats.items()) if k.startswith("op:")},
        "other_counters": {k: v for k, v in sorted(stats.items()) if ":" not in k},
        "batch_digest": batch_digest,
        "workers": workers,
        "components": getattr(prop, "COMPONENTS", {}),
        "known_findings_seen": dict(known_hits),
        "violation_records": nviol,
        "replays": reported,
        "repo": repo_state(),
    }
    doc = {
        "property_id": pid,
        "tier": tier,
        "seed": verif_seed,
        "level": prop.LEVEL,
        "coverage": coverage,
        "assumptions": list(getattr(prop, "ASSUMPTIONS", [])) + notes + _seam_notes(prop),
        "wall_s": round(wall, 2),
        "violations": len(unknown),
    }
    doc = _finite(doc)  # strict JSON: no Infinity/NaN literals in evidence
    try:
        validate_evidence(doc)
    except Exception as exc:
        print(f"HARNESS-ERROR evidence does not validate: {type(exc).__name__}: {exc}", flush=True)
        return 2
    # evidence describes /repo itself; a run pointed at another tree (VERIF_REPO, used for seeded changes) files its
    # report under scratch/ so that the committed evidence is never overwritten by it
    evdir = os.path.join(VERIF, "evidence") if not os.environ.get("VERIF_REPO") else os.path.join(VERIF, "scratch", "evidence-other-tree")
    os.makedirs(evdir, exist_ok=True)
    with open(os.path.join(evdir, f"{pid}.json"), "w") as dst:
        json.dump(doc, dst, indent=1, sort_keys=True, default=core._default)
    if unreproducible and exit_code == 0:
        print(f"HARNESS-ERROR {unreproducible} violation class(es) were observed but none could be reproduced", flush=True)
        exit_code = 2
    if harness_errors and exit_code == 0:
        print("HARNESS-ERROR", len(harness_errors), "runs failed inside the harness and no violation was confirmed", flush=True)
        exit_code = 2
    print(f"{pid} {tier}: runs={done_runs} decided={evaluations} distinct={len(sigs)} violations={len(unknown)} known={sum(known_hits.values())} wall={wall:.1f}s digest={batch_digest[:12]}", flush=True)
    return exit_code


def _finite(obj: Any) -> Any:
    if isinstance(obj, float) and (obj != obj or obj in (float("inf"), float("-inf"))):
        return repr(obj)
    if isinstance(obj, dict):
        return {k: _finite(v) for k, v in obj.items()}
    if isinstance(obj, (list, tuple)):
        return [_finite(v) for v in obj]
    return obj


def _seam_notes(prop) -> List[str]:
    if "tie order" not in json.dumps(getattr(prop, "COMPONENTS", {})):
        return []
    from . import seams

    bypass = seams.scan_method_sorts(NUMPOLY_DIR)
    if bypass:
        return ["method-form sorts in numpoly that bypass the tie-order stand-in (real platform order there): " + ", ".join(bypass)]
    return ["static scan: no method-form sort (arr.argsort()/arr.sort()) in numpoly; every unstable sort goes through the tie-order stand-in"]


def _compact(plan: dict, limit: int = 6000) -> Any:
    text = json.dumps(plan, sort_keys=True, default=core._default)
    if len(text) <= limit:
        return json.loads(text)
    slim = dict(plan)
    slim["steps"] = plan.get("steps", [])[:4]
    slim["truncated_steps"] = len(plan.get("steps", []))
    text = json.dumps(slim, sort_keys=True, default=core._default)
    if len(text) <= limit * 2:
        return json.loads(text)
    return {"truncated": text[:limit]}
