"""FileSeam: simulated file objects, a path router with write-back-on-close
semantics, a simulated locale, and deterministic I/O faults.

Only exceptions are injected (OSError at the k-th write / read-side call / at
close), never silent short writes: numpy ignores the return value of write(),
so a silently short write would be numpy's problem, not numpoly's.
"""
from __future__ import annotations

import builtins
import errno
import io
import os
import sys
import shutil
import tempfile
from typing import Any, Dict, List, Optional

from . import core


class Faults:
    """Fault schedule and counters shared by all file objects of one operation."""

    def __init__(self, write_fail_at: Optional[int] = None, read_fail_at: Optional[int] = None, close_fails: bool = False, err: int = errno.EIO,
                 capacity: Optional[int] = None):
        # capacity: the device is full after this many characters/bytes.  A buffered stream stores what fits and
        # raises ENOSPC; a raw stream (attribute raw=True) stores what fits and *returns the short count*, as
        # io.RawIOBase.write may, and raises ENOSPC only once nothing fits.
        self.capacity = capacity
        self.short_write_by: Optional[str] = None  # file name of the code that issued the short write
        self.write_fail_at = write_fail_at
        self.read_fail_at = read_fail_at
        self.close_fails = close_fails
        self.err = err
        self.writes = 0
        self.reads = 0
        self.closes = 0
        self.fired: List[str] = []

    def on_write(self) -> None:
        self.writes += 1
        if self.write_fail_at is not None and self.writes == self.write_fail_at:
            self.fired.append(f"write#{self.writes}")
            raise OSError(self.err, os.strerror(self.err) + " (simulated)")

    def room(self, pos: int, n: int, raw: bool, caller: str) -> int:
        """How much of a write of n items at position pos the device takes."""
        if self.capacity is None or pos + n <= self.capacity:
            return n
        fit = max(0, self.capacity - pos)
        if raw and fit > 0:
            self.fired.append(f"short-write@{pos}+{fit}/{n}")
            self.short_write_by = caller
            return fit
        self.fired.append(f"enospc@{pos}")
        self.partial = fit
        return -1

    def on_read(self) -> None:
        self.reads += 1
        if self.read_fail_at is not None and self.reads == self.read_fail_at:
            self.fired.append(f"read#{self.reads}")
            raise OSError(self.err, os.strerror(self.err) + " (simulated)")

    def on_close(self) -> None:
        self.closes += 1
        if self.close_fails:
            self.close_fails = False
            self.fired.append("close")
            raise OSError(errno.ENOSPC, "No space left on device (simulated, at close)")


class _SimBase:
    def __init__(self, faults: Optional[Faults] = None, sink: Any = None, chunk: Optional[int] = None):
        self.faults = faults or Faults()
        self._sink = sink  # callable(content) at successful close (path write-back)
        self._pos = 0
        self.closed = False
        self._chunk = chunk

    # subclasses define self._data (list-like buffer) helpers
    def readable(self) -> bool:
        return True

    def writable(self) -> bool:
        return True

    def seekable(self) -> bool:
        return not getattr(self, "forward_only", False)

    def tell(self) -> int:
        return self._pos

    def seek(self, pos: int, whence: int = 0) -> int:
        if getattr(self, "forward_only", False):
            raise io.UnsupportedOperation("underlying stream is not seekable")
        if whence == 0:
            self._pos = pos
        elif whence == 1:
            self._pos += pos
        else:
            self._pos = self._len() + pos
        return self._pos

    def flush(self) -> None:
        if self.closed:
            raise ValueError("I/O operation on closed file.")

    def close(self) -> None:
        if self.closed:
            return
        self.closed = True
        self.faults.on_close()
        if self._sink is not None:
            self._sink(self.getvalue())

    def __enter__(self) -> Any:
        return self

    def __exit__(self, *exc: Any) -> None:
        self.close()

    def __iter__(self) -> Any:
        return self

    def __next__(self) -> Any:
        line = self.readline()
        if not line:
            raise StopIteration
        return line

    def _check(self) -> None:
        if self.closed:
            raise ValueError("I/O operation on closed file.")


class SimText(_SimBase):
    """Text stream (like io.StringIO / a file opened in text mode)."""

    def __init__(self, initial: str = "", faults: Optional[Faults] = None, encoding: Optional[str] = None, sink: Any = None,
                 chunk: Optional[int] = None, codec: Optional[str] = None, lazy_bytes: Optional[bytes] = None):
        super().__init__(faults, sink, chunk)
        self._buf = initial
        if encoding is not None:
            self.encoding = encoding
        self._codec = codec  # encoding enforced at write time (path files)
        self._lazy = lazy_bytes  # undecoded content of a path file: decoded at the first read

    def _len(self) -> int:
        return len(self._buf)

    def getvalue(self) -> str:
        return self._buf

    def _decode(self) -> None:
        if self._lazy is not None:
            raw, self._lazy = self._lazy, None
            self._buf = raw.decode(self._codec or "utf-8")

    def write(self, s: Any) -> int:
        self._check()
        if not isinstance(s, str):
            raise TypeError(f"write() argument must be str, not {type(s).__name__}")
        self.faults.on_write()
        if self._codec:
            s.encode(self._codec)  # UnicodeEncodeError like a real TextIOWrapper
        fit = self.faults.room(self._pos, len(s), False, "")
        if fit < 0:
            part = s[: self.faults.partial]
            self._buf = self._buf[: self._pos] + part + self._buf[self._pos + len(part):]
            self._pos += len(part)
            raise OSError(errno.ENOSPC, "No space left on device (simulated)")
        self._buf = self._buf[: self._pos] + s + self._buf[self._pos + len(s):]
        self._pos += len(s)
        return len(s)

    def read(self, n: int = -1) -> str:
        self._check()
        self.faults.on_read()
        self._decode()
        if n is None or n < 0:
            out = self._buf[self._pos:]
        else:
            if self._chunk:
                n = min(n, self._chunk)
            out = self._buf[self._pos: self._pos + n]
        self._pos += len(out)
        return out

    def readline(self, size: int = -1) -> str:
        self._check()
        self.faults.on_read()
        self._decode()
        end = self._buf.find("\n", self._pos)
        end = len(self._buf) if end < 0 else end + 1
        if size is not None and size >= 0:
            end = min(end, self._pos + size)
        out = self._buf[self._pos: end]
        self._pos = end
        return out

    def readlines(self) -> List[str]:
        return list(self)


class SimBytes(_SimBase):
    """Binary stream (like io.BytesIO / a file opened in binary mode)."""

    def __init__(self, initial: bytes = b"", faults: Optional[Faults] = None, sink: Any = None, chunk: Optional[int] = None, encoding: Optional[str] = None):
        super().__init__(faults, sink, chunk)
        self._buf = bytearray(initial)
        if encoding is not None:
            self.encoding = encoding

    def _len(self) -> int:
        return len(self._buf)

    def getvalue(self) -> bytes:
        return bytes(self._buf)

    def write(self, b: Any) -> int:
        self._check()
        if isinstance(b, str):
            raise TypeError("a bytes-like object is required, not 'str'")
        self.faults.on_write()
        data = bytes(b)
        fit = self.faults.room(self._pos, len(data), bool(getattr(self, "raw", False)), sys._getframe(1).f_code.co_filename)
        if fit < 0:
            part = data[: self.faults.partial]
            self._buf[self._pos: self._pos + len(part)] = part
            self._pos += len(part)
            raise OSError(errno.ENOSPC, "No space left on device (simulated)")
        data = data[:fit]
        self._buf[self._pos: self._pos + len(data)] = data
        self._pos += len(data)
        return len(data)

    def read(self, n: int = -1) -> bytes:
        self._check()
        self.faults.on_read()
        if n is None or n < 0:
            out = bytes(self._buf[self._pos:])
        else:
            out = bytes(self._buf[self._pos: self._pos + n])
        self._pos += len(out)
        return out

    def readinto(self, b: Any) -> int:
        data = self.read(len(b))
        b[: len(data)] = data
        return len(data)

    def readline(self, size: int = -1) -> bytes:
        self._check()
        self.faults.on_read()
        end = self._buf.find(b"\n", self._pos)
        end = len(self._buf) if end < 0 else end + 1
        if size is not None and size >= 0:
            end = min(end, self._pos + size)
        out = bytes(self._buf[self._pos: end])
        self._pos = end
        return out


class SimBuffered(SimBytes):
    """A buffered binary reader over a raw stream that delivers data in small pieces (a pipe, a socket, a
    decompressor): ``peek`` returns what one raw read produced - possibly far less than asked for, possibly not
    even a whole line - without advancing the position."""

    def __init__(self, *args: Any, piece: int = 7, **kwargs: Any):
        super().__init__(*args, **kwargs)
        self._piece = piece

    def peek(self, size: int = 0) -> bytes:
        self._check()
        self.faults.on_read()
        return bytes(self._buf[self._pos: self._pos + self._piece])

    def read1(self, size: int = -1) -> bytes:
        return self.read(self._piece if size is None or size < 0 else min(size, self._piece))


class FileEnv:
    """Scratch directory + router on the three open() calls of the path route.

    Files opened for writing are simulated buffers written back to the real
    path only when close() succeeds (what a page cache gives); files opened
    for reading serve the real file's bytes through a simulated stream."""

    def __init__(self, locale: str = "utf-8"):
        self.locale = locale
        self.faults = Faults()
        self.dir: Optional[str] = None
        self.opens: List[tuple] = []
        self._saved: List[tuple] = []

    def path(self, name: str) -> str:
        assert self.dir is not None
        return os.path.join(self.dir, name)

    def set_faults(self, faults: Faults) -> None:
        self.faults = faults

    def __enter__(self) -> "FileEnv":
        import numpy.lib._datasource as ds
        import numpy.lib._npyio_impl as npyio
        import sys

        import numpoly  # noqa: F401

        nl = sys.modules["numpoly.array_function.loadtxt"]  # (the package attribute of that name is the function)
        self.dir = tempfile.mkdtemp(prefix="verif-c13-")
        openers = ds._file_openers
        openers._load()
        self._saved = [(npyio, "open", npyio.__dict__.get("open", None)), (nl, "open", nl.__dict__.get("open", None))]
        # any numpoly module that opens a file by itself (today only loadtxt does) gets the router as its `open`
        for name, mod in sorted(sys.modules.items()):
            if (name == "numpoly" or name.startswith("numpoly.")) and mod is not None and mod is not nl and getattr(mod, "__file__", "") and str(mod.__file__).endswith(".py"):
                self._saved.append((mod, "open", mod.__dict__.get("open", None)))
                mod.open = self.router  # type: ignore[attr-defined]
        self._saved_opener = openers._file_openers[None]
        npyio.open = self.router
        nl.open = self.router
        openers._file_openers[None] = self.router
        return self

    def __exit__(self, *exc: Any) -> None:
        import numpy.lib._datasource as ds

        for mod, name, old in self._saved:
            if old is None:
                mod.__dict__.pop(name, None)
            else:
                setattr(mod, name, old)
        ds._file_openers._file_openers[None] = self._saved_opener
        if self.dir:
            shutil.rmtree(self.dir, ignore_errors=True)

    def router(self, file: Any, mode: str = "r", buffering: int = -1, encoding: Optional[str] = None, errors: Any = None, newline: Any = None, **kw: Any) -> Any:
        path = os.fspath(file)
        if isinstance(path, bytes):
            path = os.fsdecode(path)
        if self.dir is None or not os.path.abspath(path).startswith(self.dir):
            return builtins.open(file, mode, buffering, encoding, errors, newline, **kw)
        binary = "b" in mode
        codec = None if binary else (encoding or self.locale)
        self.opens.append((os.path.basename(path), mode, encoding))
        if any(c in mode for c in "wax"):
            if "x" in mode and os.path.exists(path):
                raise FileExistsError(path)
            builtins.open(path, "ab").close()  # the name exists as soon as the file is opened

            def sink(content: Any, path: str = path, codec: Optional[str] = codec) -> None:
                data = content if isinstance(content, bytes) else content.encode(codec or "utf-8")
                with builtins.open(path, "wb") as dst:
                    dst.write(data)

            if binary:
                return SimBytes(b"", self.faults, sink=sink)
            return SimText("", self.faults, sink=sink, codec=codec, encoding=codec)
        with builtins.open(path, "rb") as src:
            raw = src.read()
        if binary:
            return SimBytes(raw, self.faults)
        return SimText("", self.faults, codec=codec, encoding=codec, lazy_bytes=raw)

    def self_probe(self) -> None:
        """A sentinel save/load must be observed by the router on all three
        opens; otherwise a numpy upgrade moved the names (harness error)."""
        import numpy
        import numpoly

        self.opens = []
        target = self.path("probe.txt")
        try:  # only the opens matter here; whether the round trip works is the property's business
            numpoly.savetxt(target, numpoly.polynomial([1.0, 2.0]) * numpoly.variable())
            numpoly.loadtxt(target)
        except Exception:  # noqa: BLE001
            pass
        modes = [m for _, m, _ in self.opens]
        # numpy's own opens (one for the save, one for the load) must come through the router; how numpoly itself
        # peeks at the header is the library's business (whatever it uses reads the real file the router wrote back)
        if len([m for m in modes if any(c in m for c in "wax")]) < 1 or len([m for m in modes if m.startswith("r")]) < 1:
            raise core.HarnessError(f"FileSeam self-probe: router saw only {self.opens}")
        self.opens = []
