"""Harness-side seams: heap content, unstable-sort tie order, interior faults.

Every seam is a contract-equivalent stand-in: it exhibits only behaviours the
real dependency is allowed to exhibit (any bytes in fresh memory, any order of
equal keys from an unstable sort, an asynchronous exception between two lines,
MemoryError from an allocation), so a property that holds for the code holds
under every seam policy.
"""
from __future__ import annotations

import ctypes
import sys
import types
from typing import Any, Callable, Dict, List, Optional

import numpy as real_numpy

from . import core


def _numpoly_modules() -> List[types.ModuleType]:
    return [m for name, m in sorted(sys.modules.items()) if (name == "numpoly" or name.startswith("numpoly.")) and m is not None]


class Env:
    """All seams of one run.  Install with ``with Env(...) as env:``."""

    def __init__(self, rs: int, sort: str = "stable", fill: Optional[str] = None, guarded: bool = False):
        self.rs = rs
        self.sort_policy = sort
        self.fill = fill
        self.guarded = guarded
        self.step: Any = 0
        self.counters: Dict[str, int] = {}
        self.alloc_index = 0  # allocations in the current step
        self.alloc_fail_at: Optional[int] = None
        self.sort_consults = 0
        self.stale: List[bytes] = []
        self.canaries: List[tuple] = []
        self._patched: List[tuple] = []
        self._orig_new = None
        self.installed = False
        self.proxy = _make_proxy(self)

    # -- bookkeeping -------------------------------------------------------
    def bump(self, key: str, n: int = 1) -> None:
        self.counters[key] = self.counters.get(key, 0) + n

    def begin_step(self, step_id: Any) -> None:
        self.step = step_id
        self.alloc_index = 0
        self.sort_consults = 0
        self.alloc_fail_at = None

    # -- install / remove --------------------------------------------------
    def __enter__(self) -> "Env":
        import numpoly

        for mod in _numpoly_modules():
            if getattr(mod, "numpy", None) is real_numpy:
                self._patched.append((mod, "numpy", real_numpy))
                setattr(mod, "numpy", self.proxy)
        if not self._patched:
            raise core.HarnessError("numpy proxy: no numpoly module holds a module-global 'numpy'")
        cls = numpoly.ndpoly
        self._orig_new = cls.__dict__["__new__"]
        orig = self._orig_new.__func__ if isinstance(self._orig_new, staticmethod) else self._orig_new
        env = self

        def __new__(cls_, *args: Any, **kwargs: Any):
            env.bump("seam:heap.ndpoly_allocs")
            env.alloc_tick()
            obj = orig(cls_, *args, **kwargs)
            if env.fill is not None and "buffer" not in kwargs:
                if env.guarded and obj.nbytes:
                    obj = env._guarded(orig, cls_, obj, args, kwargs)
                env._fill(obj)
            return obj

        cls.__new__ = __new__
        self.installed = True
        _malloc_perturb({"a5": 0xA5, "ff": 0xFF, "prng": 0x5B, "stale": 0x3C}.get(self.fill or "", 0))
        return self

    def __exit__(self, *exc: Any) -> None:
        import numpoly

        sys.settrace(None)
        _malloc_perturb(0)
        for mod, name, value in self._patched:
            setattr(mod, name, value)
        self._patched = []
        if self._orig_new is not None:
            numpoly.ndpoly.__new__ = self._orig_new
        self.installed = False

    # -- heap --------------------------------------------------------------
    def alloc_tick(self) -> None:
        """One allocation request made by numpoly code (an ndpoly, or a call of a numpy array-creating
        function through a module-global ``numpy``).  The k-th one of a step can be made to fail."""
        self.alloc_index += 1
        if self.alloc_fail_at is not None and self.alloc_index == self.alloc_fail_at:
            self.alloc_fail_at = None
            self.bump("fault:alloc_memoryerror.fired")
            raise MemoryError("simulated allocation failure")

    def _pattern(self, n: int) -> bytes:
        fill = self.fill
        if fill == "zero":
            return b"\x00" * n
        if fill == "a5":
            return b"\xa5" * n
        if fill == "ff":
            return b"\xff" * n
        if fill == "prng":
            return core.Chooser(self.rs, "heap", self.step, self.alloc_index).bytes(n)
        if fill == "stale":
            if self.stale:
                src = self.stale[core.H(self.rs, "stale", self.step, self.alloc_index) % len(self.stale)]
                reps = n // len(src) + 1
                return (src * reps)[:n]
            return b"\xa5" * n
        raise core.HarnessError(f"unknown fill {fill}")

    def _fill(self, arr: Any) -> None:
        n = int(arr.nbytes)
        if not n:
            return
        self.bump("seam:heap.bytes_filled", n)
        pattern = self._pattern(n)
        ctypes.memmove(arr.ctypes.data, pattern, n)

    def fill_plain(self, arr: Any) -> Any:
        """For numpy.empty / empty_like results."""
        if self.fill is not None and isinstance(arr, real_numpy.ndarray) and arr.nbytes and arr.flags.c_contiguous | arr.flags.f_contiguous:
            self.bump("seam:heap.empty_allocs")
            if arr.dtype.hasobject:
                return arr
            self._fill(arr)
        return arr

    def remember(self, arr: Any) -> None:
        """Feed the 'stale' fill with bytes of an earlier numpoly buffer."""
        try:
            n = int(arr.nbytes)
            if n and len(self.stale) < 16 and arr.flags.c_contiguous:
                self.stale.append(ctypes.string_at(arr.ctypes.data, min(n, 4096)))
        except Exception:
            pass

    CANARY = 64

    def _guarded(self, orig: Callable, cls_: Any, obj: Any, args: tuple, kwargs: dict) -> Any:
        n = int(obj.nbytes)
        buf = real_numpy.full(n + 2 * self.CANARY, 0xC3, dtype=real_numpy.uint8)
        kw = dict(kwargs, buffer=buf, offset=self.CANARY)
        guarded = orig(cls_, *args, **kw)
        if guarded.nbytes != n:
            raise core.HarnessError("guarded allocation changed size")
        self.canaries.append((buf, n))
        if len(self.canaries) > 64:
            self.check_canaries()
        return guarded

    def check_canaries(self) -> int:
        hits = 0
        for buf, n in self.canaries:
            if (buf[: self.CANARY] != 0xC3).any() or (buf[self.CANARY + n:] != 0xC3).any():
                hits += 1
        self.canaries = []
        if hits:
            self.bump("probe:redzone_hits", hits)
        return hits

    # -- sort --------------------------------------------------------------
    def argsort(self, a: Any, axis: Any = -1, kind: Any = None, order: Any = None, *, stable: Any = None) -> Any:
        arr = real_numpy.asanyarray(a)
        if order is not None or kind in ("stable", "mergesort") or stable or self.sort_policy == "platform":
            if stable is not None:
                return real_numpy.argsort(a, axis=axis, kind=kind, order=order, stable=stable)
            return real_numpy.argsort(a, axis=axis, kind=kind, order=order)
        self.sort_consults += 1
        self.bump("seam:sort.consults")
        flat = axis is None
        if flat:
            arr = arr.ravel()
            axis = -1
        base = real_numpy.argsort(arr, axis=axis, kind="stable")
        if arr.ndim == 0 or arr.shape[axis] < 2 or self.sort_policy == "stable":
            if self._has_tie(arr, base, axis):
                self.bump("seam:sort.consults_with_tie")
            return base
        moved = real_numpy.moveaxis(base, axis, -1)
        vals = real_numpy.moveaxis(real_numpy.take_along_axis(arr, base, axis=axis), axis, -1)
        out = moved.copy()
        lanes_idx = out.reshape(-1, out.shape[-1])
        lanes_val = vals.reshape(-1, vals.shape[-1])
        tie = False
        for lane in range(lanes_idx.shape[0]):
            tie |= self._permute_ties(lanes_idx[lane], lanes_val[lane], lane)
        if tie:
            self.bump("seam:sort.consults_with_tie")
        out = lanes_idx.reshape(out.shape)
        return real_numpy.moveaxis(out, -1, axis)

    @staticmethod
    def _has_tie(arr: Any, base: Any, axis: int) -> bool:
        if arr.ndim == 0 or arr.shape[axis] < 2:
            return False
        vals = real_numpy.take_along_axis(arr, base, axis=axis)
        a = real_numpy.moveaxis(vals, axis, -1)
        with real_numpy.errstate(all="ignore"):
            return bool(real_numpy.any(a[..., 1:] == a[..., :-1]))

    def _permute_ties(self, idx: Any, vals: Any, lane: int) -> bool:
        n = len(idx)
        with real_numpy.errstate(all="ignore"):
            same = vals[1:] == vals[:-1]
            if vals.dtype.kind in "fc":
                nan = real_numpy.isnan(vals)
                same = same | (nan[1:] & nan[:-1])
        if not same.any():
            return False
        start = 0
        run = 0
        while start < n:
            stop = start + 1
            while stop < n and same[stop - 1]:
                stop += 1
            if stop - start > 1:
                seg = idx[start:stop].copy()
                if stop - start >= 3:
                    self.bump("probe:tie_among_3_or_more")
                policy = self.sort_policy
                if policy == "reversed":
                    seg = seg[::-1]
                elif policy == "rotated":
                    seg = real_numpy.roll(seg, 1)
                elif policy == "prng":
                    ch = core.Chooser(self.rs, "sort", self.step, self.sort_consults, lane, run)
                    seg = seg[ch.shuffle(range(len(seg)))]
                idx[start:stop] = seg
                run += 1
            start = stop
        return True

    def sort(self, a: Any, axis: Any = -1, kind: Any = None, order: Any = None, *, stable: Any = None) -> Any:
        # values only: ties are indistinguishable
        if stable is not None:
            return real_numpy.sort(a, axis=axis, kind=kind, order=order, stable=stable)
        return real_numpy.sort(a, axis=axis, kind=kind, order=order)


_LIBC: Any = None


def _malloc_perturb(byte: int) -> None:
    """glibc M_PERTURB: blocks handed out by malloc are filled with ~byte and freed ones with byte.
    Reaches the buffers numpy allocates internally (beyond its small-block cache), which the
    Python-level wrappers cannot poison.  Best effort: silently absent on other C libraries."""
    global _LIBC
    try:
        if _LIBC is None:
            _LIBC = ctypes.CDLL("libc.so.6")
        _LIBC.mallopt(-6, int(byte))
    except Exception:  # noqa: BLE001
        _LIBC = False


# array-creating functions of numpy whose call from numpoly code counts as an allocation request
ALLOCATORS = ["zeros", "ones", "full", "zeros_like", "ones_like", "full_like", "indices", "arange", "array", "concatenate",
              "stack", "vstack", "hstack", "tile", "repeat", "outer", "meshgrid", "unique"]


def _make_proxy(env: Env) -> types.ModuleType:
    class NumpyProxy(types.ModuleType):
        def __getattr__(self, name: str) -> Any:  # only for names not set below
            return getattr(real_numpy, name)

    proxy = NumpyProxy("numpy")
    proxy.__dict__["__sim_proxy__"] = True

    def empty(*args: Any, **kwargs: Any) -> Any:
        env.alloc_tick()
        return env.fill_plain(real_numpy.empty(*args, **kwargs))

    def empty_like(*args: Any, **kwargs: Any) -> Any:
        env.alloc_tick()
        return env.fill_plain(real_numpy.empty_like(*args, **kwargs))

    proxy.empty = empty
    proxy.empty_like = empty_like

    def ticking(real: Callable) -> Callable:
        def creator(*args: Any, **kwargs: Any) -> Any:
            env.alloc_tick()
            return real(*args, **kwargs)

        creator.__name__ = getattr(real, "__name__", "creator")
        creator.__wrapped__ = real  # type: ignore[attr-defined]
        return creator

    for name in ALLOCATORS:
        setattr(proxy, name, ticking(getattr(real_numpy, name)))
    proxy.argsort = env.argsort
    proxy.sort = env.sort
    return proxy


# ---------------------------------------------------------------------------
# FaultSeam: asynchronous exception at the k-th executed line of numpoly code


class LineTracer:
    """Counts 'line' events in frames of /repo/numpoly (never option.py) and
    raises SimInterrupt at event k.  k=None: count only (dry run)."""

    def __init__(self, numpoly_dir: str, k: Optional[int] = None, budget: int = 2_000_000, action: Optional[Callable[[], None]] = None):
        self.dir = numpoly_dir
        self.k = k
        self.action = action  # instead of interrupting: what "the other party" does at that instant (e.g. another thread's call)
        self.budget = budget
        self.count = 0
        self.fired: Optional[str] = None
        self.over_budget = False
        self.last_lines: List[str] = []

    def _global(self, frame: Any, event: str, arg: Any) -> Any:
        filename = frame.f_code.co_filename
        if filename.startswith(self.dir) and not filename.endswith("option.py"):
            return self._local
        return None

    def _local(self, frame: Any, event: str, arg: Any) -> Any:
        if event == "line":
            self.count += 1
            if self.k is not None and self.count == self.k:
                self.fired = f"{frame.f_code.co_filename[len(self.dir):]}:{frame.f_lineno}"
                if self.action is not None:
                    self.action()
                    return self._local
                raise core.SimInterrupt(self.fired)
            if self.count > self.budget:
                self.over_budget = True
                raise core.SimInterrupt("line budget exceeded")
        return self._local

    def run(self, func: Callable[[], Any]) -> Any:
        sys.settrace(self._global)
        try:
            return func()
        finally:
            sys.settrace(None)


def interrupted_first(func: Callable[[], Any], numpoly_dir: str, u: int, stats: Optional[Dict[str, int]] = None, span: int = 150) -> bool:
    """History for 'abort and retry': the request is made once and interrupted between two lines of numpoly
    code (position 1 + u % span), whatever it raises is swallowed; the caller then makes the request again and
    judges that one.  True iff the interrupt fired."""
    tracer = LineTracer(numpoly_dir, k=1 + u % span)
    fired = False
    try:
        tracer.run(func)
    except core.SimInterrupt:
        fired = True
    except core.HarnessError:
        raise
    except Exception:  # noqa: BLE001
        pass
    if stats is not None and fired:
        stats["fault:interrupted_then_retried.fired"] = stats.get("fault:interrupted_then_retried.fired", 0) + 1
    return fired


def scan_method_sorts(numpoly_dir: str) -> List[str]:
    """Static probe: method-form sorts (``arr.argsort()``, ``arr.sort()``) cannot
    be intercepted by the module-global numpy proxy; list them so evidence can say
    where the tie-order stand-in is bypassed (the check stays sound there, it only
    sees this platform's real tie order)."""
    import ast
    import os

    found: List[str] = []
    for root, _dirs, files in os.walk(numpoly_dir):
        for name in sorted(files):
            if not name.endswith(".py"):
                continue
            path = os.path.join(root, name)
            try:
                tree = ast.parse(open(path).read())
            except (OSError, SyntaxError):
                continue
            for node in ast.walk(tree):
                if isinstance(node, ast.Call) and isinstance(node.func, ast.Attribute) and node.func.attr in ("argsort", "sort", "argpartition", "partition"):
                    base = node.func.value
                    if isinstance(base, ast.Name) and base.id in ("numpy", "np"):
                        continue
                    found.append(f"{os.path.relpath(path, numpoly_dir)}:{node.lineno}")
    return sorted(found)
