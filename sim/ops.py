"""Operation catalogue shared by C14, C15, C17 (DESIGN.md appendix A).

An *op descriptor* in a plan is ``{"op": name, "args": [literals], "kwargs": {...}}``.
``call(desc, args, kwargs)`` performs the real numpoly call on built arguments.
Explicit output targets (``out=``, ``copyto`` destination) are not generated.
"""
from __future__ import annotations

import copy
import operator
import pickle
from typing import Any, Callable, Dict, List, Optional

import json

import numpy

from . import core, model
from .model import gen_poly, gen_names, broadcast_partner_shape, lit_array


class Op:
    def __init__(self, name: str, gen: Callable, call: Callable, family: str, ordering: bool = False,
                 display: bool = False, division: bool = False, weight: int = 2, numeric: bool = True):
        self.name = name
        self.gen = gen
        self.call = call
        self.family = family
        self.ordering = ordering
        self.display = display
        self.division = division
        self.weight = weight


OPS: Dict[str, Op] = {}


def _reg(name: str, gen: Callable, call: Callable, family: str, **kw: Any) -> None:
    assert name not in OPS, name
    OPS[name] = Op(name, gen, call, family, **kw)


def np_():
    import numpoly

    return numpoly


# ---------------------------------------------------------------------------
# argument generators (return {"args": [...], "kwargs": {...}})


def P(lit: dict) -> dict:
    return {"poly": lit}


def A(values: Any, dtype: str) -> dict:
    return {"array": lit_array(values, dtype)}


def S(v: Any) -> dict:
    if isinstance(v, complex):
        return {"scalar": [v.real, v.imag]}
    return {"scalar": v}


def g_unary(ch: core.Chooser, **kw: Any) -> dict:
    return {"args": [P(gen_poly(ch.sub("a"), **kw))], "kwargs": {}}


def g_unary_nd(ch: core.Chooser, min_ndim: int = 1, **kw: Any) -> dict:
    shapes = [s for s in model.SHAPES if len(s) >= min_ndim]
    return {"args": [P(gen_poly(ch.sub("a"), shape=ch.choice(shapes), **kw))], "kwargs": {}}


def partner(ch: core.Chooser, lit: dict, allow_plain: bool = True, aligned_chance: float = 0.25, kind: Optional[str] = None) -> dict:
    """A second operand for `lit`: polynomial (possibly already aligned with it),
    ndarray, list or scalar, with a broadcast-compatible shape."""
    shape = tuple(lit["shape"])
    kind = kind or ("float" if lit["dtype"].startswith("float") else "int")
    r = ch.below(100)
    if allow_plain and r < 10:
        return S(ch.choice([0, 1, -2, 3, 0.5] if kind == "float" else [0, 1, -2, 3]))
    pshape = broadcast_partner_shape(ch.sub("ps"), shape) if ch.chance(0.4) else shape
    if allow_plain and r < 20:
        size = int(numpy.prod(pshape, dtype=int))
        vals = model.gen_coeff_values(ch.sub("pv"), size, kind)
        arr = numpy.array(vals, dtype="float64" if kind == "float" else "int64").reshape(pshape)
        return {"list": lit_array(arr, str(arr.dtype))} if r < 14 and arr.ndim else A(arr, str(arr.dtype))
    if ch.chance(aligned_chance):
        # same names, same exponent rows (already aligned: internal aliasing possible)
        size = int(numpy.prod(shape, dtype=int))
        coeffs = [model._jsonable(model.gen_coeff_values(ch.sub("ac", i), size, kind if kind != "float" or lit["dtype"].startswith("float") else "int"), "float" if lit["dtype"].startswith("float") else "int")
                  for i in range(len(lit["exponents"]))]
        return P(dict(lit, coefficients=coeffs))
    # names: equal / overlapping / disjoint
    rel = ch.below(3)
    if rel == 0:
        names = lit["names"]
    elif rel == 1:
        names = sorted(set(ch.sample(lit["names"], max(1, len(lit["names"]) - 1)) + ch.sample(model.NAME_POOL, 1)), key=model.name_key)
    else:
        rest = [n for n in model.NAME_POOL if n not in lit["names"]]
        names = sorted(ch.sample(rest, ch.between(1, 2)), key=model.name_key)
    return P(gen_poly(ch.sub("b"), names=names, shape=pshape, kind=kind))


def g_binary(ch: core.Chooser, allow_plain: bool = True, **kw: Any) -> dict:
    a = gen_poly(ch.sub("a"), **kw)
    b = partner(ch.sub("p"), a, allow_plain=allow_plain)
    args = [P(a), b]
    if allow_plain and "poly" not in b and ch.chance(0.5):
        args = [b, P(a)]
    return {"args": args, "kwargs": {}}


def g_binary_polys(ch: core.Chooser, **kw: Any) -> dict:
    return g_binary(ch, allow_plain=False, **kw)


def g_axis(ch: core.Chooser, keepdims: bool = False, tuples: bool = True, min_ndim: int = 0, **kw: Any) -> dict:
    shapes = [s for s in model.SHAPES if len(s) >= min_ndim]
    shape = ch.choice(shapes)
    a = gen_poly(ch.sub("a"), shape=shape, **kw)
    kwargs: Dict[str, Any] = {}
    nd = len(shape)
    options: List[Any] = [None] + list(range(nd)) + [-1] * (nd > 0)
    if tuples and nd >= 2:
        options += [{"tuple": [0, 1]}, {"tuple": [nd - 1, 0]}]
    axis = ch.choice(options)
    if axis is not None or ch.chance(0.3):
        kwargs["axis"] = axis if axis is not None else {"none": 1}
    cx = ch.sub("axis-type")
    if isinstance(axis, int) and cx.chance(0.3):
        # the axis arrives as a 0-d integer array (what numpy.argmax and friends hand back), counted from either end
        kwargs["axis"] = A(numpy.array(axis - nd if (axis >= 0 and cx.chance(0.5)) else axis), "int64")
    elif isinstance(axis, dict) and "tuple" in axis and cx.chance(0.3):
        kwargs["axis"] = {"seq": list(axis["tuple"])}
    if keepdims and ch.chance(0.4):
        kwargs["keepdims"] = True
    return {"args": [P(a)], "kwargs": kwargs}


def g_same_shape_list(ch: core.Chooser, n_lo: int = 1, n_hi: int = 3, min_ndim: int = 1) -> dict:
    shapes = [s for s in model.SHAPES if len(s) >= min_ndim]
    shape = ch.choice(shapes)
    n = ch.between(n_lo, n_hi)
    items = [P(gen_poly(ch.sub("i", i), shape=shape, kind="int")) for i in range(n)]
    return {"args": [{"seq": items}], "kwargs": {}}


# ---------------------------------------------------------------------------
# registrations


def _unary(name: str, func: Callable, family: str = "unary", **kw: Any) -> None:
    _reg(name, g_unary, lambda a, k, f=func: f(a[0], **k), family, **kw)


def _binary(name: str, func: Callable, family: str = "binary", gen: Callable = g_binary, **kw: Any) -> None:
    _reg(name, gen, lambda a, k, f=func: f(a[0], a[1], **k), family, **kw)


def _install() -> None:
    n = np_()

    # --- unary elementwise
    for name in ("negative", "positive", "absolute", "square", "ceil", "floor", "rint", "isfinite"):
        _unary(name, getattr(n, name))
        _unary("numpy." + name, getattr(numpy, name), weight=1)
    _reg("around", lambda ch: dict(g_unary(ch, kind="float"), kwargs={"decimals": ch.choice([0, 1, 2])}), lambda a, k: n.around(a[0], **k), "unary")
    _unary("op.neg", operator.neg)
    _unary("op.pos", operator.pos)
    _unary("op.abs", operator.abs, weight=1)

    # --- binary elementwise
    for name in ("add", "subtract", "multiply"):
        _binary(name, getattr(n, name), weight=4)
        _binary("numpy." + name, getattr(numpy, name), weight=1)
    _binary("op.add", operator.add, weight=3)
    _binary("op.sub", operator.sub, weight=3)
    _binary("op.mul", operator.mul, weight=3)
    for name in ("equal", "not_equal"):
        _binary(name, getattr(n, name), weight=2)
    _binary("op.eq", operator.eq)
    _binary("op.ne", operator.ne)
    for name, opf in (("less", operator.lt), ("less_equal", operator.le), ("greater", operator.gt), ("greater_equal", operator.ge)):
        _binary(name, getattr(n, name), ordering=True)
        _binary("op." + opf.__name__, opf, ordering=True, weight=1)
    _binary("maximum", n.maximum, ordering=True)
    _binary("minimum", n.minimum, ordering=True)
    _binary("logical_and", n.logical_and, weight=1)
    _binary("logical_or", n.logical_or, weight=1)
    _binary("isclose", n.isclose, weight=1)
    _binary("allclose", n.allclose, weight=1)

    def g_power(ch: core.Chooser) -> dict:
        a = gen_poly(ch.sub("a"), max_terms=3, max_exp=2)
        form = ch.sub("form").weighted([(6, "usual"), (2, "poly_exponent"), (1, "0d_array_exponent"), (2, "scalar_base_array_exponent")])
        if form == "poly_exponent":
            # the exponent is itself a (constant) polynomial: 0-d, or an array matching the base
            shape = () if ch.chance(0.6) or not a["shape"] else tuple(a["shape"])
            vals = [ch.choice([0, 1, 2, 3]) for _ in range(int(numpy.prod(shape, dtype=int)))]
            e: Any = P({"names": [ch.choice(["q0", "q1"])], "shape": list(shape), "dtype": "int64", "exponents": [[0]], "coefficients": [vals]})
        elif form == "0d_array_exponent":
            e = A(numpy.array(ch.choice([0, 1, 2, 3])), ch.choice(["int64", "int32", "uint8"]))
        elif form == "scalar_base_array_exponent":
            a = gen_poly(ch.sub("a0"), shape=(), max_terms=3, max_exp=2)
            shape = ch.choice([(3,), (4,), (2, 2), (2, 3)])
            e = A(numpy.array([ch.choice([0, 1, 2, 3]) for _ in range(int(numpy.prod(shape, dtype=int)))]).reshape(shape), "int64")
        elif ch.chance(0.7) or not a["shape"]:
            e = S(ch.choice([0, 1, 2, 2, 3]))
        else:
            shape = tuple(a["shape"]) if ch.chance(0.6) else tuple(a["shape"][-1:])
            e = A(numpy.array([ch.choice([0, 1, 2]) for _ in range(int(numpy.prod(shape, dtype=int)))]).reshape(shape), "int64")
        return {"args": [P(a), e], "kwargs": {}}

    _reg("power", g_power, lambda a, k: n.power(a[0], a[1]), "binary")
    _reg("op.pow", g_power, lambda a, k: a[0] ** a[1], "binary")

    # --- numeric division (constant divisor)
    def g_numdiv(ch: core.Chooser) -> dict:
        a = gen_poly(ch.sub("a"), kind="float")
        shape = tuple(a["shape"])
        dshape = shape if ch.chance(0.6) else ()
        size = int(numpy.prod(dshape, dtype=int))
        vals = [ch.choice([1.0, 2.0, -4.0, 0.5]) for _ in range(size)]
        if ch.chance(0.5):
            d: Any = P({"names": ["q0"], "shape": list(dshape), "dtype": "float64", "exponents": [[0]], "coefficients": [vals], "retain": True})
        else:
            d = A(numpy.array(vals).reshape(dshape), "float64")
        return {"args": [P(a), d], "kwargs": {}}

    for name in ("true_divide", "floor_divide", "remainder", "divmod"):
        _reg(name, g_numdiv, lambda a, k, f=getattr(n, name): f(a[0], a[1]), "numdiv", division=True, weight=1)

    # --- polynomial division (univariate or constant divisor, bounded)
    def g_polydiv(ch: core.Chooser) -> dict:
        name = ch.choice(["q0", "q1"])
        shape = ch.choice([(), (2,), (1,), (2, 2)])
        size = int(numpy.prod(shape, dtype=int))
        nd = ch.between(1, 4)
        dividend = {"names": [name], "shape": list(shape), "dtype": "float64",
                    "exponents": [[e] for e in range(nd + 1)],
                    "coefficients": [[float(ch.choice([-2, -1, 0, 1, 2, 3])) for _ in range(size)] for _ in range(nd + 1)], "retain": True}
        ct = ch.sub("tiny")
        if ct.chance(0.25):
            # a term far below the size at which the division stops looking for quotients (1e-40): small is not zero, and
            # the dividend is the caller's object
            t = ct.below(nd + 1)
            dividend["coefficients"][t] = [ct.choice([1e-40, -1e-40, 3e-35, 1e-40]) for _ in range(size)]
        dd = ch.between(0, 2)
        divisor = {"names": [name], "shape": list(shape if ch.chance(0.5) else ()), "dtype": "float64",
                   "exponents": [[e] for e in range(dd + 1)],
                   "coefficients": [], "retain": True}
        dsize = int(numpy.prod(divisor["shape"], dtype=int))
        for e in range(dd + 1):
            if e == dd:
                divisor["coefficients"].append([float(ch.choice([1, 2, -1])) for _ in range(dsize)])
            else:
                divisor["coefficients"].append([float(ch.choice([-1, 0, 1, 2])) for _ in range(dsize)])
        return {"args": [P(dividend), P(divisor)], "kwargs": {}}

    _reg("poly_divmod", g_polydiv, lambda a, k: n.poly_divmod(a[0], a[1]), "polydiv", division=True, weight=1)
    _reg("poly_divide", g_polydiv, lambda a, k: n.poly_divide(a[0], a[1]), "polydiv", division=True, weight=1)
    _reg("poly_remainder", g_polydiv, lambda a, k: n.poly_remainder(a[0], a[1]), "polydiv", division=True, weight=1)
    _reg("op.truediv", g_polydiv, lambda a, k: a[0] / a[1], "polydiv", division=True, weight=1)
    _reg("op.mod", g_polydiv, lambda a, k: a[0] % a[1], "polydiv", division=True, weight=1)
    _reg("op.divmod", g_polydiv, lambda a, k: divmod(a[0], a[1]), "polydiv", division=True, weight=1)

    # --- reductions
    for name in ("sum", "mean", "cumsum", "any", "all", "count_nonzero"):
        _reg(name, lambda ch, nm=name: g_axis(ch, keepdims=nm in ("sum", "mean", "any", "all"), tuples=nm not in ("cumsum",)),
             lambda a, k, f=getattr(n, name): f(a[0], **k), "reduce")
    _reg("prod", lambda ch: g_axis(ch, max_terms=2, max_exp=1, tuples=False), lambda a, k: n.prod(a[0], **k), "reduce", weight=1)
    for name in ("amax", "amin"):
        _reg(name, lambda ch: g_axis(ch, keepdims=True), lambda a, k, f=getattr(n, name): f(a[0], **k), "reduce", ordering=True)
    for name in ("argmax", "argmin"):
        _reg(name, lambda ch: g_axis(ch, tuples=False), lambda a, k, f=getattr(n, name): f(a[0], **k), "reduce", ordering=True)
    _reg("method.sum", lambda ch: g_axis(ch), lambda a, k: a[0].sum(**k), "reduce", weight=1)
    _reg("method.max", lambda ch: g_axis(ch), lambda a, k: a[0].max(**k), "reduce", ordering=True, weight=1)
    _reg("method.min", lambda ch: g_axis(ch), lambda a, k: a[0].min(**k), "reduce", ordering=True, weight=1)
    _unary("nonzero", n.nonzero, "reduce", weight=1)

    # --- linear algebra
    def g_vecs(ch: core.Chooser) -> dict:
        m = ch.between(1, 3)
        a = gen_poly(ch.sub("a"), shape=(m,), max_terms=3)
        b = gen_poly(ch.sub("b"), shape=(m,), max_terms=3, names=a["names"] if ch.chance(0.5) else None)
        return {"args": [P(a), P(b)], "kwargs": {}}

    _reg("inner", g_vecs, lambda a, k: n.inner(a[0], a[1]), "linalg", weight=1)
    _reg("outer", g_vecs, lambda a, k: n.outer(a[0], a[1]), "linalg", weight=1)

    def g_mats(ch: core.Chooser) -> dict:
        l, m, r = ch.between(1, 2), ch.between(1, 3), ch.between(1, 2)
        a = gen_poly(ch.sub("a"), shape=(l, m), max_terms=3, max_exp=2)
        b = gen_poly(ch.sub("b"), shape=(m, r), max_terms=3, max_exp=2)
        return {"args": [P(a), P(b)], "kwargs": {}}

    _reg("matmul", g_mats, lambda a, k: n.matmul(a[0], a[1]), "linalg", weight=1)
    _reg("op.matmul", g_mats, lambda a, k: a[0] @ a[1], "linalg", weight=1)
    _reg("det", lambda ch: {"args": [P(gen_poly(ch.sub("a"), shape=ch.choice([(1, 1), (2, 2), (3, 3), (2, 2, 2)]), max_terms=2, max_exp=1))], "kwargs": {}},
         lambda a, k: n.det(a[0]), "linalg", weight=1)

    # --- differences
    def g_diff(ch: core.Chooser) -> dict:
        shape = ch.choice([(2,), (3,), (2, 2), (2, 3), (2, 1, 3)])
        a = gen_poly(ch.sub("a"), shape=shape)
        kwargs: Dict[str, Any] = {}
        if ch.chance(0.5):
            kwargs["n"] = ch.choice([0, 1, 2])
        if ch.chance(0.5):
            kwargs["axis"] = ch.choice(list(range(len(shape))) + [-1])
        return {"args": [P(a)], "kwargs": kwargs}

    _reg("diff", g_diff, lambda a, k: n.diff(a[0], **k), "diff")

    def g_ediff(ch: core.Chooser) -> dict:
        d = g_unary_nd(ch, 1)
        if ch.chance(0.4):
            d["kwargs"]["to_end"] = S(ch.choice([0, 1, 2]))
        if ch.chance(0.3):
            d["kwargs"]["to_begin"] = S(ch.choice([0, 5]))
        return d

    _reg("ediff1d", g_ediff, lambda a, k: n.ediff1d(a[0], **k), "diff", weight=1)

    # --- shape functions
    _reg("transpose", lambda ch: g_unary_nd(ch, 0), lambda a, k: n.transpose(a[0]), "shape")
    _reg("prop.T", lambda ch: g_unary_nd(ch, 0), lambda a, k: a[0].T, "shape", weight=1)
    _reg("method.ravel", g_unary, lambda a, k: a[0].ravel(), "shape", weight=1)
    _reg("method.flatten", g_unary, lambda a, k: a[0].flatten(), "shape", weight=1)
    _reg("prop.flat", g_unary, lambda a, k: a[0].flat, "shape", weight=1)
    _reg("method.copy", g_unary, lambda a, k: a[0].copy(), "shape", weight=1)

    def g_reshape(ch: core.Chooser) -> dict:
        shape = ch.choice(model.SHAPES)
        size = int(numpy.prod(shape, dtype=int))
        targets = {1: [(), (1,), (1, 1)], 2: [(2,), (1, 2), (2, 1), (-1,)], 3: [(3,), (3, 1), (1, 3)], 4: [(4,), (2, 2), (-1, 2), (1, 4)],
                   6: [(6,), (2, 3), (3, 2), (-1,), (1, 2, 3)], 8: [(8,), (2, 4), (4, 2), (2, 2, 2)]}[size]
        target = list(ch.choice(targets))
        how = ch.sub("shape-as").weighted([(5, "tuple"), (2, "array"), (1, "list")])
        if how == "array" and target:
            # the new shape handed over as an integer array (the caller's own object)
            dt = ch.sub("shape-as").choice(["int64", "int64", "int32"])
            return {"args": [P(gen_poly(ch.sub("a"), shape=shape)), A(numpy.array(target, dtype=dt), dt)], "kwargs": {}}
        return {"args": [P(gen_poly(ch.sub("a"), shape=shape)), {"seq": target} if how == "list" and target else {"tuple": target}], "kwargs": {}}

    _reg("reshape", g_reshape, lambda a, k: n.reshape(a[0], a[1]), "shape")
    _reg("method.reshape", g_reshape, lambda a, k: a[0].reshape(a[1]), "shape", weight=1)
    _reg("numpy.reshape", g_reshape, lambda a, k: numpy.reshape(a[0], a[1]), "shape", weight=1)

    def g_moveaxis(ch: core.Chooser) -> dict:
        shape = ch.choice([(1, 2), (2, 3), (1, 2, 2), (2, 1, 3)])
        nd = len(shape)
        return {"args": [P(gen_poly(ch.sub("a"), shape=shape)), ch.below(nd), ch.below(nd) - (nd if ch.chance(0.3) else 0)], "kwargs": {}}

    _reg("moveaxis", g_moveaxis, lambda a, k: n.moveaxis(a[0], a[1], a[2]), "shape", weight=1)
    _reg("expand_dims", lambda ch: (lambda d: dict(d, kwargs={"axis": ch.choice([0, -1])}))(g_unary(ch)), lambda a, k: n.expand_dims(a[0], **k), "shape", weight=1)
    for name in ("atleast_1d", "atleast_2d", "atleast_3d"):
        _unary(name, getattr(n, name), "shape", weight=1)

    def g_repeat(ch: core.Chooser) -> dict:
        d = g_unary(ch)
        shape = d["args"][0]["poly"]["shape"]
        kwargs: Dict[str, Any] = {}
        if shape and ch.chance(0.6):
            kwargs["axis"] = ch.below(len(shape))
        d["args"].append(ch.choice([1, 2, 3]))
        d["kwargs"] = kwargs
        return d

    _reg("repeat", g_repeat, lambda a, k: n.repeat(a[0], a[1], **k), "shape", weight=1)
    _reg("tile", lambda ch: (lambda d: dict(d, args=d["args"] + [ch.choice([1, 2, {"tuple": [2, 1]}, {"tuple": [1, 2]}])]))(g_unary(ch)),
         lambda a, k: n.tile(a[0], a[1]), "shape", weight=1)
    _reg("diag", lambda ch: (lambda d: dict(d, kwargs=({"k": ch.choice([-1, 0, 1])} if ch.chance(0.5) else {})))(
        {"args": [P(gen_poly(ch.sub("a"), shape=ch.choice([(2,), (3,), (2, 2), (2, 3), (3, 2)])))], "kwargs": {}}),
        lambda a, k: n.diag(a[0], **k), "shape", weight=1)
    _reg("diagonal", lambda ch: (lambda d: dict(d, kwargs=({"offset": ch.choice([-1, 0, 1])} if ch.chance(0.5) else {})))(
        {"args": [P(gen_poly(ch.sub("a"), shape=ch.choice([(2, 2), (2, 3), (3, 2), (2, 2, 2)])))], "kwargs": {}}),
        lambda a, k: n.diagonal(a[0], **k), "shape", weight=1)
    _reg("broadcast_arrays", g_binary, lambda a, k: n.broadcast_arrays(a[0], a[1]), "shape", weight=1)

    # --- join / split
    for name, mnd in (("concatenate", 1), ("stack", 0), ("hstack", 1), ("vstack", 1), ("dstack", 1)):
        _reg(name, lambda ch, m=mnd: g_same_shape_list(ch, min_ndim=m), lambda a, k, f=getattr(n, name): f(a[0], **k), "join")

    def g_split(ch: core.Chooser, axis: Optional[int] = None, min_ndim: int = 1) -> dict:
        shapes = {1: [(2,), (4,), (6,)], 2: [(2, 2), (4, 2), (2, 4)], 3: [(2, 2, 2), (1, 2, 4)]}[min_ndim]
        shape = ch.choice(shapes)
        lit = gen_poly(ch.sub("a"), shape=shape, max_terms=3)
        return {"args": [P(lit), 2], "kwargs": {}}

    _reg("split", lambda ch: g_split(ch), lambda a, k: n.split(a[0], a[1]), "join", weight=1)
    _reg("array_split", lambda ch: dict(g_split(ch), args=[P(gen_poly(ch.sub("a"), shape=(3,))), 2]), lambda a, k: n.array_split(a[0], a[1]), "join", weight=1)
    _reg("hsplit", lambda ch: g_split(ch), lambda a, k: n.hsplit(a[0], a[1]), "join", weight=1)
    _reg("vsplit", lambda ch: g_split(ch, min_ndim=2), lambda a, k: n.vsplit(a[0], a[1]), "join", weight=1)
    _reg("dsplit", lambda ch: g_split(ch, min_ndim=3), lambda a, k: n.dsplit(a[0], a[1]), "join", weight=1)

    # --- selection
    def g_where(ch: core.Chooser) -> dict:
        a = gen_poly(ch.sub("a"))
        b = partner(ch.sub("p"), a)
        shape = tuple(a["shape"])
        size = int(numpy.prod(shape, dtype=int))
        cond = numpy.array([ch.chance(0.5) for _ in range(size)], dtype=bool).reshape(shape)
        return {"args": [A(cond, "bool"), P(a), b], "kwargs": {}}

    _reg("where", g_where, lambda a, k: n.where(a[0], a[1], a[2]), "select")

    def g_choose(ch: core.Chooser) -> dict:
        shape = ch.choice([(2,), (3,), (2, 2)])
        size = int(numpy.prod(shape, dtype=int))
        m = ch.between(2, 3)
        idx = numpy.array([ch.below(m) for _ in range(size)]).reshape(shape)
        items = [P(gen_poly(ch.sub("c", i), shape=shape, kind="int", max_terms=3)) for i in range(m)]
        return {"args": [A(idx, "int64"), {"seq": items}], "kwargs": {}}

    _reg("choose", g_choose, lambda a, k: n.choose(a[0], a[1]), "select", weight=1)

    def g_choose_mode(ch: core.Chooser) -> dict:
        d = g_choose(ch)
        m = len(d["args"][1]["seq"])
        lit = d["args"][0]["array"]
        lit["flat"] = [ch.choice([-1, 0, 1, m, m + 1, m - 1]) for _ in lit["flat"]]  # out-of-range entries for wrap/clip
        d["kwargs"] = {"mode": ch.choice(["wrap", "clip", "raise"])}
        return d

    _reg("choose.mode", g_choose_mode, lambda a, k: n.choose(a[0], a[1], **k), "select", weight=1)
    _reg("numpy.choose.mode", g_choose_mode, lambda a, k: numpy.choose(a[0], a[1], **k), "select", weight=1)

    # --- creation
    _reg("zeros_like", g_unary, lambda a, k: n.zeros_like(a[0]), "create", weight=1)
    _reg("ones_like", g_unary, lambda a, k: n.ones_like(a[0]), "create", weight=1)

    def g_full_like(ch: core.Chooser) -> dict:
        a = gen_poly(ch.sub("a"))
        v = gen_poly(ch.sub("v"), shape=(), max_terms=3, kind="float" if a["dtype"].startswith("float") else "int")
        return {"args": [P(a), P(v)], "kwargs": {}}

    _reg("full_like", g_full_like, lambda a, k: n.full_like(a[0], a[1]), "create", weight=1)
    _reg("full", lambda ch: {"args": [{"tuple": list(ch.choice([(2,), (2, 2), ()]))}, P(gen_poly(ch.sub("v"), shape=(), max_terms=3))], "kwargs": {}},
         lambda a, k: n.full(a[0], a[1]), "create", weight=1)
    _reg("result_type", g_binary_polys, lambda a, k: n.result_type(a[0], a[1]), "types", weight=1)
    _reg("common_type", lambda ch: g_binary_polys(ch, kind="float"), lambda a, k: n.common_type(a[0], a[1]), "types", weight=1)

    # --- higher order
    _reg("apply_along_axis", lambda ch: {"args": [P(gen_poly(ch.sub("a"), shape=ch.choice([(2,), (2, 2), (2, 3)]), max_terms=3))], "kwargs": {}},
         lambda a, k: n.apply_along_axis(n.sum, 0, a[0]), "higher", weight=1)
    _reg("apply_over_axes", lambda ch: {"args": [P(gen_poly(ch.sub("a"), shape=ch.choice([(2, 2), (2, 3), (2, 2, 2)]), max_terms=3))], "kwargs": {}},
         lambda a, k: n.apply_over_axes(n.sum, a[0], [0, 1]), "higher", weight=1)

    # --- text
    def _text(f: Callable) -> Callable:
        def call_(a: list, k: dict) -> Any:
            k = dict(k)
            popts = k.pop("printoptions", None)
            if popts:
                with numpy.printoptions(**popts):
                    return f(a[0], **k)
            return f(a[0], **k)

        return call_

    for name, f in (("str", str), ("repr", repr), ("array_str", n.array_str), ("array_repr", n.array_repr)):
        _reg(name, lambda ch: g_unary(ch, kind=ch.choice(["int", "float", "float"])), _text(f), "text", display=True)

    # --- construction
    _reg("polynomial", g_unary, lambda a, k: n.polynomial(a[0]), "construct")
    _reg("polynomial.list", lambda ch: g_same_shape_list(ch, min_ndim=0), lambda a, k: n.polynomial(a[0]), "construct")
    _reg("polynomial.struct", g_unary, lambda a, k: n.polynomial(a[0].values, names=a[0].names), "construct", weight=1)
    _reg("polynomial.dict", lambda ch: g_unary(ch, allow_redundant=False), lambda a, k: n.polynomial(a[0].todict(), names=a[0].names), "construct", weight=1)
    _reg("aspolynomial", g_unary, lambda a, k: n.aspolynomial(a[0]), "construct")
    _reg("aspolynomial.dtype", g_unary, lambda a, k: n.aspolynomial(a[0], dtype=float), "construct", weight=1)
    _reg("from_attributes", g_unary, lambda a, k: n.polynomial_from_attributes(a[0].exponents, a[0].coefficients, a[0].names), "construct")
    _reg("clean_attributes", g_unary, lambda a, k: n.clean_attributes(a[0]), "construct")
    _reg("clean_attributes.retain", g_unary, lambda a, k: n.clean_attributes(a[0], retain_coefficients=True, retain_names=False), "construct", weight=1)
    _reg("astype", lambda ch: g_unary(ch, kind="int"), lambda a, k: a[0].astype(float), "construct", weight=1)
    _reg("indeterminants", g_unary, lambda a, k: a[0].indeterminants, "construct", weight=1)
    _reg("prop.coefficients", g_unary, lambda a, k: a[0].coefficients, "props", weight=1)
    _reg("prop.exponents", g_unary, lambda a, k: a[0].exponents, "props", weight=1)
    _reg("prop.values", g_unary, lambda a, k: a[0].values, "props", weight=1)
    _reg("prop.names", g_unary, lambda a, k: (a[0].names, a[0].keys.tolist(), a[0].dtype, a[0].shape), "props", weight=1)
    _reg("iter", lambda ch: g_unary_nd(ch, 1), lambda a, k: list(a[0]), "props", weight=1)

    def g_index(ch: core.Chooser) -> dict:
        shape = ch.choice([(3,), (2, 2), (2, 3), (2, 1, 3), (2, 2, 2)])
        a = gen_poly(ch.sub("a"), shape=shape)
        nd = len(shape)
        kind = ch.below(6)
        if kind == 0:
            idx: Any = ch.below(shape[0])
        elif kind == 1:
            idx = {"index": [{"slice": [None, None, -1]}] + [ch.below(s) for s in shape[1:]]}
        elif kind == 2:
            idx = {"index": [{"ellipsis": 1}, ch.below(shape[-1])]}
        elif kind == 3:
            idx = {"array": lit_array([ch.below(shape[0]) for _ in range(3)], "int64")}
        elif kind == 4:
            mask = numpy.array([ch.chance(0.5) for _ in range(int(numpy.prod(shape, dtype=int)))], dtype=bool).reshape(shape)
            idx = {"array": lit_array(mask, "bool")}
        else:
            idx = {"index": [{"newaxis": 1}] + [{"slice": [0, 1, None]}] * min(nd, 2)}
        return {"args": [P(a), idx], "kwargs": {}}

    _reg("getitem", g_index, lambda a, k: a[0][a[1]], "index", weight=3)

    # --- alignment
    for name in ("align_polynomials", "align_shape", "align_indeterminants", "align_exponents"):
        _reg(name, g_binary, lambda a, k, f=getattr(n, name): f(a[0], a[1]), "align")

    # --- polynomial functions
    def g_call(ch: core.Chooser) -> dict:
        a = gen_poly(ch.sub("a"), max_exp=2)
        names = a["names"]
        mode = ch.below(4)
        vals = [ch.choice([-1, 0, 2, 0.5, 3]) for _ in names]
        if mode == 0:
            return {"args": [P(a)] + [S(v) for v in vals], "kwargs": {}}
        if mode == 1:
            return {"args": [P(a)], "kwargs": {names[0]: S(vals[0])}}
        if mode == 2:
            return {"args": [P(a)] + [{"none": 1}] * (len(names) - 1) + [S(vals[-1])], "kwargs": {}}
        other = gen_poly(ch.sub("s"), shape=(), max_terms=2, max_exp=1, names=names[:1], kind="int")
        return {"args": [P(a)], "kwargs": {names[-1]: P(other)}}

    _reg("call", g_call, lambda a, k: a[0](*a[1:], **k), "polyfn", weight=3)

    def g_deriv(ch: core.Chooser) -> dict:
        a = gen_poly(ch.sub("a"))
        names = a["names"]
        mode = ch.below(3)
        nvars = ch.choice([1, 1, 2])
        picks = [ch.choice(names) for _ in range(nvars)]
        if mode == 0:
            extra: List[Any] = picks
        elif mode == 1:
            extra = [names.index(p) for p in picks]
        else:
            extra = [P({"names": names, "shape": [], "dtype": "int64", "exponents": [[int(nm == p) for nm in names]], "coefficients": [[1]], "retain": True}) for p in picks]
        return {"args": [P(a)] + extra, "kwargs": {}}

    _reg("derivative", g_deriv, lambda a, k: n.derivative(a[0], *a[1:]), "polyfn", weight=3)
    _reg("gradient", lambda ch: g_unary(ch, max_terms=4), lambda a, k: n.gradient(a[0]), "polyfn")
    _reg("hessian", lambda ch: g_unary(ch, max_terms=3, shape=ch.choice([(), (2,)])), lambda a, k: n.hessian(a[0]), "polyfn", weight=1)
    _reg("decompose", g_unary, lambda a, k: n.decompose(a[0]), "polyfn")
    _reg("set_dimensions", lambda ch: (lambda d: dict(d, args=d["args"] + [ch.between(1, 5)]))(g_unary(ch)), lambda a, k: n.set_dimensions(a[0], a[1]), "polyfn")
    for name in ("lead_exponent", "lead_coefficient", "sortable_proxy"):
        _reg(name, lambda ch: (lambda d: dict(d, kwargs={"graded": ch.chance(0.5), "reverse": ch.chance(0.5)}))(g_unary(ch)),
             lambda a, k, f=getattr(n, name): f(a[0], **k), "polyfn", ordering=True)
    _reg("isconstant", g_unary, lambda a, k: a[0].isconstant(), "polyfn", weight=1)
    _reg("todict", g_unary, lambda a, k: a[0].todict(), "polyfn", weight=1)
    _reg("tonumpy", lambda ch: {"args": [P(model.gen_constant(ch.sub("c"), names=gen_names(ch.sub("n"))))], "kwargs": {}}, lambda a, k: a[0].tonumpy(), "polyfn", weight=1)
    def _to_sympy(a: list, k: dict) -> Any:
        return n.to_sympy(a[0])

    _reg("to_sympy", lambda ch: g_unary(ch, shape=ch.choice([(), (), (2,)]), kind=ch.choice(["int", "float"]), max_terms=4), _to_sympy, "polyfn", weight=1)
    _reg("pickle", g_unary, lambda a, k: pickle.loads(pickle.dumps(a[0], protocol=k.get("protocol", 2))), "polyfn")

    def g_call_arrays(ch: core.Chooser) -> dict:
        # evaluation points handed over as numpy arrays (0-d or 1-d) the caller keeps
        names = gen_names(ch.sub("n"), 2, 3)
        lit = gen_poly(ch.sub("a"), names=names, shape=(), kind="int", max_terms=4, max_exp=2)
        if lit["exponents"]:
            lit["exponents"][0] = [1] * len(names)  # a product of all indeterminates, each to the first power
        shape = () if ch.chance(0.6) else (2,)
        dt = ch.choice(["float64", "float64", "int64"])
        pts = [A(numpy.array([ch.choice([2, 3, 5])] * int(numpy.prod(shape, dtype=int)), dtype=dt).reshape(shape), dt) for _ in names]
        return {"args": [P(lit)] + pts, "kwargs": {}}

    _reg("call.arrays", g_call_arrays, lambda a, k: a[0](*a[1:]), "polyfn", weight=1)

    def g_roots_array(ch: core.Chooser) -> dict:
        m = ch.between(1, 3)
        shape = ch.choice([(m,), (m, 1), (1, m), (m, m)])
        dt = ch.choice(["float64", "int64"])
        return {"args": [A(numpy.array([ch.choice([1, 2, -1, 0, 3]) for _ in range(int(numpy.prod(shape)))], dtype=dt).reshape(shape), dt)], "kwargs": {}}

    _reg("roots.array", g_roots_array, lambda a, k: n.polynomial_from_roots(a[0]), "construct", weight=1)

    def g_copyto(ch: core.Chooser) -> dict:
        # destination (declared output, exempt from the snapshot) and a source over the same indeterminates that may hold
        # non-finite numbers; the source is an argument like any other
        dst = gen_poly(ch.sub("dst"), kind="int", max_terms=3)
        src = json.loads(json.dumps(dst))
        src["dtype"] = "float64"
        pool = [1.5, -2.0, 0.0, float("nan"), float("inf"), float("-inf"), 3.0]
        src["coefficients"] = [[ch.choice(pool) for _ in col] for col in dst["coefficients"]]
        kw: Dict[str, Any] = {"casting": ch.choice(["unsafe", "unsafe", "same_kind", "safe"])}
        return {"args": [P(dst), P(src)], "kwargs": kw, "outputs": [0]}

    _reg("copyto", g_copyto, lambda a, k: n.copyto(a[0], a[1], **k), "polyfn", weight=1)
    _reg("numpy.copyto", g_copyto, lambda a, k: numpy.copyto(a[0], a[1], **k), "polyfn", weight=1)

    def _savetxt(spelling: str) -> Callable:
        def call(a: list, k: dict) -> Any:
            import io

            stream = io.BytesIO() if k.get("binary") else io.StringIO()
            (n.savetxt if spelling == "numpoly" else numpy.savetxt)(stream, a[0], **{x: v for x, v in k.items() if x != "binary"})
            stream.seek(0)
            return n.loadtxt(stream)

        return call

    def g_savetxt(ch: core.Chooser) -> dict:
        d = g_unary(ch, kind=ch.choice(["int", "float"]))
        d["kwargs"] = {"binary": ch.chance(0.5)}
        if ch.chance(0.3):
            d["kwargs"]["header"] = "note"
        return d

    _reg("savetxt", g_savetxt, _savetxt("numpoly"), "polyfn", weight=1)
    _reg("numpy.savetxt", g_savetxt, _savetxt("numpy"), "polyfn", weight=1)
    _reg("copy.copy", g_unary, lambda a, k: copy.copy(a[0]), "polyfn", weight=1)
    _reg("copy.deepcopy", g_unary, lambda a, k: copy.deepcopy(a[0]), "polyfn", weight=1)
    _reg("roots", lambda ch: {"args": [{"seq": [ch.choice([1, 2, -1, 0, 3]) for _ in range(ch.between(1, 3))]}], "kwargs": {}},
         lambda a, k: n.polynomial_from_roots(a[0]), "construct", weight=1)

    # --- utilities (index generation)
    def g_monomial(ch: core.Chooser) -> dict:
        dims = ch.between(1, 3)
        kwargs = {"dimensions": dims, "graded": ch.chance(0.5), "reverse": ch.chance(0.5), "cross_truncation": ch.choice([0.5, 1.0, 2.0])}
        return {"args": [ch.between(1, 4)], "kwargs": kwargs}

    _reg("monomial", g_monomial, lambda a, k: n.monomial(a[0], **k), "utils")

    # --- arrays handed to the constructors and index utilities themselves (exponent matrices, key matrices, grids, bounds)
    def g_raw_ctor(ch: core.Chooser) -> dict:
        lit = gen_poly(ch.sub("a"), max_terms=4, kind="int")
        nv = len(lit["names"])
        exps = numpy.array(lit["exponents"], dtype="int64").reshape(len(lit["exponents"]), nv)
        if ch.chance(0.25) and len(exps) >= 2:
            exps[1] = exps[0]  # duplicate rows: the constructor refuses
        dt = ch.choice(["uint32", "uint32", "int64", "uint8"])
        names = list(lit["names"]) if ch.chance(0.8) else ["q0"] * nv  # (duplicate names are refused as well)
        coeffs = {"seq": [A(numpy.array(col, dtype="int64").reshape(lit["shape"]), "int64") for col in lit["coefficients"]]}
        kw = {"retain_coefficients": True} if ch.chance(0.5) else {}
        if ch.chance(0.3):
            kw["retain_names"] = ch.chance(0.5)
        return {"args": [A(exps, dt), coeffs, {"tuple": names}, {"tuple": list(lit["shape"])}], "kwargs": kw}

    _reg("ndpoly.raw", g_raw_ctor, lambda a, k: n.ndpoly(exponents=a[0], shape=a[3], names=a[2]), "construct", weight=1)
    _reg("from_attributes.raw", g_raw_ctor, lambda a, k: n.polynomial_from_attributes(a[0], a[1], a[2], **k), "construct", weight=1)

    # the representation cleaners take the bare exponent matrix and coefficient list
    def g_raw_clean(ch: core.Chooser) -> dict:
        lit = gen_poly(ch.sub("a"), max_terms=4, kind=ch.choice(["int", "float"]))
        nv = len(lit["names"])
        exps = numpy.array(lit["exponents"], dtype="int64").reshape(len(lit["exponents"]), nv)
        cdt = "int64" if lit.get("dtype", "int64").startswith("int") else "float64"
        cols = [numpy.array(col, dtype=cdt).reshape(lit["shape"]) for col in lit["coefficients"]]
        if ch.chance(0.5) and len(cols) >= 1:
            cols[ch.below(len(cols))][...] = 0  # a redundant term
        mode = ch.choice(["none", "one", "one", "some", "all"])  # redundant names: none, one column, a subset, every column
        for j in range(nv):
            if mode == "all" or (mode == "some" and ch.chance(0.5)):
                exps[:, j] = 0
        if mode == "one":
            exps[:, ch.below(nv)] = 0
        dt = ch.choice(["uint32", "int64", "uint8"])
        return {"args": [A(exps, dt), {"seq": [A(c, cdt) for c in cols]}, {"tuple": list(lit["names"])}], "kwargs": {}}

    _reg("clean.coefficients", g_raw_clean, lambda a, k: n.remove_redundant_coefficients(a[0], a[1]), "construct")
    _reg("clean.names", g_raw_clean, lambda a, k: n.remove_redundant_names(a[0], a[2]), "construct")

    def g_cross_truncate(ch: core.Chooser) -> dict:
        d, m = ch.between(1, 3), ch.between(1, 8)
        dt = ch.choice(["float64", "float64", "int64", "uint8"])
        grid = numpy.array([[ch.below(6) for _ in range(d)] for _ in range(m)], dtype=dt)
        bdt = ch.choice(["float64", "int64"])
        bound: Any = A(numpy.array([ch.between(1, 5) for _ in range(d)], dtype=bdt), bdt) if ch.chance(0.5) else ch.between(1, 5)
        return {"args": [A(grid, dt), bound, ch.choice([0.5, 1, 2, 4.0])], "kwargs": {}}

    _reg("cross_truncate", g_cross_truncate, lambda a, k: n.cross_truncate(a[0], a[1], a[2]), "utils", weight=1)

    def g_glexsort(ch: core.Chooser) -> dict:
        d, m = ch.between(1, 3), ch.between(1, 8)
        dt = ch.choice(["int64", "uint32", "uint8", "float64"])
        keys = numpy.array([[ch.below(4) for _ in range(m)] for _ in range(d)], dtype=dt)
        return {"args": [A(keys, dt)], "kwargs": {"graded": ch.chance(0.5), "reverse": ch.chance(0.5)}}

    _reg("glexsort", g_glexsort, lambda a, k: n.glexsort(a[0], **k), "utils", weight=1)

    def g_glexindex(ch: core.Chooser) -> dict:
        d = ch.between(1, 3)
        dt = ch.choice(["int64", "uint32", "uint8"])
        stop = numpy.array([ch.between(1, 4) for _ in range(d)], dtype=dt)
        start = numpy.array([ch.below(int(s) + 1) for s in stop], dtype=dt)
        if dt == "int64" and ch.chance(0.4):
            start = numpy.array([-ch.between(1, 2) if ch.chance(0.6) else int(v) for v in start], dtype=dt)  # negative: no lower bound
        return {"args": [A(start, dt), A(stop, dt)], "kwargs": {"graded": ch.chance(0.5), "reverse": ch.chance(0.5), "cross_truncation": ch.choice([0.5, 1.0, 2.0, 4.0])}}

    _reg("glexindex", g_glexindex, lambda a, k: n.glexindex(a[0], a[1], **k), "utils", weight=1)
    _reg("bindex", g_glexindex, lambda a, k: n.bindex(a[0], a[1], cross_truncation=k.get("cross_truncation", 1.0)), "utils", weight=1)
    _reg("variable", lambda ch: {"args": [ch.between(1, 3)], "kwargs": {}}, lambda a, k: n.variable(a[0]), "construct", weight=1)
    _reg("symbols", lambda ch: {"args": [ch.choice(["q0", "q1 q3", "q:3", "q2,q10"])], "kwargs": {}}, lambda a, k: n.symbols(a[0]), "construct", weight=1)


_installed = False


def ensure() -> None:
    global _installed
    if not _installed:
        _install()
        _installed = True


def names(filter_: Optional[Callable[[Op], bool]] = None) -> List[str]:
    ensure()
    return [k for k, v in OPS.items() if filter_ is None or filter_(v)]


WHERE_OPS = {
    "absolute", "negative", "positive", "square", "ceil", "floor", "rint", "isfinite", "add", "subtract", "multiply",
    "numpy.add", "numpy.subtract", "numpy.multiply", "numpy.negative", "numpy.square", "numpy.absolute",
    "equal", "not_equal", "less", "less_equal", "greater", "greater_equal", "maximum", "minimum", "logical_and", "logical_or",
}
TEXT_OPS = {"array_str", "array_repr"}


def _decorate(ch: core.Chooser, name: str, spec: dict) -> dict:
    """Optional keyword arguments the signature accepts (seeded, sparse)."""
    kwargs = dict(spec.get("kwargs", {}))
    polys = [a["poly"] for a in spec["args"] if isinstance(a, dict) and "poly" in a]
    if name in WHERE_OPS and polys and ch.chance(0.35):
        shapes = [tuple(p["shape"]) for p in polys]
        try:
            shape = tuple(numpy.broadcast_shapes(*shapes))
        except ValueError:
            shape = shapes[0]
        size = int(numpy.prod(shape, dtype=int))
        if ch.chance(0.8) and size:
            mask = numpy.array([ch.chance(0.5) for _ in range(size)], dtype=bool).reshape(shape)
            if mask.all():
                mask.reshape(-1)[ch.below(size)] = False
            kwargs["where"] = A(mask, "bool")
        else:
            kwargs["where"] = ch.chance(0.5)
    if name in TEXT_OPS and ch.chance(0.5):
        if ch.chance(0.7):
            kwargs["suppress_small"] = ch.chance(0.7)
        if ch.chance(0.6):
            kwargs["precision"] = ch.choice([0, 2, 4, 8])
        if ch.chance(0.2):
            kwargs["max_line_width"] = ch.choice([20, 75, 200])
    if name in ("str", "repr") and ch.chance(0.3):
        kwargs["printoptions"] = {"raw": {"suppress": ch.chance(0.7), "precision": ch.choice([2, 4, 8])}}
    if name in ("sum", "mean", "cumsum") and ch.chance(0.15):
        kwargs["dtype"] = ch.choice(["float64", "complex128"])
    if name in ("isclose", "allclose") and ch.chance(0.3):
        kwargs.update({"rtol": ch.choice([1e-5, 0.1]), "atol": ch.choice([1e-8, 0.5]), "equal_nan": ch.chance(0.5)})
    if name in ("zeros_like", "ones_like", "full_like") and ch.chance(0.3):
        kwargs["dtype"] = ch.choice(["float64", "int64", "complex128"])
    if name == "pickle":
        kwargs["protocol"] = ch.below(6)
    return dict(spec, kwargs=kwargs)


def gen_op(ch: core.Chooser, filter_: Optional[Callable[[Op], bool]] = None, only: Optional[List[str]] = None) -> dict:
    ensure()
    pool = [(OPS[k].weight, k) for k in (only if only is not None else OPS) if filter_ is None or filter_(OPS[k])]
    name = ch.weighted(pool)
    spec = _decorate(ch.sub("deco"), name, OPS[name].gen(ch.sub("g")))
    out = {"op": name, "args": spec["args"], "kwargs": spec.get("kwargs", {})}
    if spec.get("outputs"):
        out["outputs"] = spec["outputs"]
    return out


LAST_PARENTS: List[Any] = []  # parents of the view arguments of the last build_args call (C17 snapshots them too)


def build_args(desc: dict) -> tuple:
    args = [model.build_value(v) for v in desc["args"]]
    kwargs = {k: model.build_value(v) for k, v in desc.get("kwargs", {}).items()}
    LAST_PARENTS.clear()
    if desc.get("view") in ("T", "rev") and not desc.get("outputs"):  # (a declared output that is a view would legitimately change its parent)
        # polynomial arguments arrive as non-contiguous views of a parent the caller still holds
        import numpoly

        for i, a in enumerate(args):
            if isinstance(a, numpoly.ndpoly) and a.ndim >= 1 and a.size > 1:
                parent = a.T.copy() if desc["view"] == "T" else a[::-1].copy()
                LAST_PARENTS.append(parent)
                args[i] = parent.T if desc["view"] == "T" else parent[::-1]
    if desc.get("alias") and len(args) >= 2:
        # the very same object in two argument positions (where the second is a polynomial of the same shape)
        import numpoly

        if isinstance(args[0], numpoly.ndpoly) and isinstance(args[1], numpoly.ndpoly) and args[0].shape == args[1].shape:
            args[1] = args[0]
    return args, kwargs


def call(desc: dict, args: list, kwargs: dict) -> Any:
    ensure()
    return OPS[desc["op"]].call(args, kwargs)
