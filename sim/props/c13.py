"""C13 — pickle, copy and text save/load round-trip polynomial arrays.

The only I/O in the library.  FileSeam supplies the file objects (text/bytes
streams with or without an encoding attribute, str/bytes/PathLike paths routed
to simulated files with write-back on close), the locale, and I/O faults at
every write / read-side call / close.
"""
from __future__ import annotations

import copy
import os
import pickle
from typing import Any, Dict, List, Optional

import numpy

from .. import prelude, core, model, fileseam
from ..model import gen_poly
from ..runner import NUMPOLY_DIR

ID = "C13"
LEVEL = "fault_enumeration"
RULE = (
    "C01-space arrays (int/float coefficients, 1-4 names incl. q10, shapes 0-d, size-1, single-term, constant, 1-3-d, transposed/"
    "sliced views) x {pickle protocols 0-5 via dumps, via simulated streams and with out-of-band buffers; copy.copy, deepcopy, "
    ".copy(); savetxt->loadtxt with fmt/delimiter/header/comments settings, both spellings, targets {text stream, bytes stream, "
    "with/without encoding attribute, str/bytes/PathLike path} under a simulated locale; integer files with coefficients beyond 2**53 loaded with an integer dtype; the same path written again (another polynomial, then a plain table) with a load after each; header-less numeric files}. Fault "
    "space per save: raise at the k-th write for EVERY k up to the number of writes the fault-free run made, and at close; per "
    "load: raise at every read-side call k. Distinct non-trivial = distinct (case, target kind, fault kind, position) where a "
    "fault fired inside the operation, plus distinct fault-free (case, target kind) round trips."
)
COMPONENTS = {
    "real": ["numpoly.savetxt/loadtxt/__reduce__/copy", "numpy.savetxt/loadtxt/DataSource", "pickle, copy"],
    "stand_ins": ["file objects (SimText/SimBytes)", "open() on the path route (router with write-back on close)", "process locale (encoding of text files opened without one)", "I/O errors"],
}
ASSUMPTIONS = [
    "about a file that lost its last rows only this is asserted: loadtxt raises or returns the shape the numpoly header states (never a shorter array)",
    "save and load of one run use the same simulated locale",
    "a short count returned by a raw stream to numpy's row writer (which ignores it) is undecided; returned to numpoly code and ignored there, it is judged",
    "pickling compares canonical (non-zero) terms: __reduce__ drops all-zero terms by design",
]


def setup() -> None:
    pass


def budget(tier: str) -> int:
    return 2500 if tier == "quick" else 200000


FMTS = ["%.18e", "%.18e", "%.6e", "%d", "%.3f"]


def generate(rs: int, tier: str, index: int) -> dict:
    ch = core.Chooser(rs, "plan")
    kind = ch.weighted([(3, "pickle"), (2, "copy"), (7, "text"), (2, "plain")])
    names = model.gen_names(ch.sub("n"), 1, 4)
    special = ch.weighted([(5, "any"), (1, "0d"), (1, "size1"), (1, "single_term"), (1, "constant")])
    shape = {"0d": (), "size1": ch.choice([(1,), (1, 1)])}.get(special) or ch.choice([(), (2,), (3,), (2, 2), (2, 3), (1, 3), (2, 1, 2)])
    kindc = ch.weighted([(3, "int"), (3, "float")])
    lit = gen_poly(ch.sub("p"), names=names, shape=shape, kind=kindc, max_exp=3)
    if special == "single_term":
        keep = next((i for i, e in enumerate(lit["exponents"]) if sum(e)), 0)
        lit["exponents"], lit["coefficients"] = [lit["exponents"][keep]], [lit["coefficients"][keep]]
        size = int(numpy.prod(shape, dtype=int))
        lit["coefficients"] = [[(v if v else 2) for v in lit["coefficients"][0]]] if size else lit["coefficients"]
    if special == "constant":
        lit = model.gen_constant(ch.sub("c"), shape=shape, kind=kindc, names=names)
    if kind == "text" and ch.sub("dense").chance(0.03):
        # many terms: every monomial up to degree 6 in four names (210 terms, a header line well beyond a kilobyte)
        import itertools

        dn = ["q0", "q1", "q2", "q10"]
        de = [list(e) for e in itertools.product(range(7), repeat=4) if sum(e) <= 6]
        dsize = int(numpy.prod(shape, dtype=int))
        lit = {"names": dn, "shape": list(shape), "dtype": "int64", "exponents": de,
               "coefficients": [[ch.sub("dense", i).choice([1, 2, -1, 3]) for _ in range(dsize)] for i in range(len(de))]}
        kindc = "int"
    if kind == "text" and ch.sub("bigexp").chance(0.1):
        # exponents whose storage keys are not ASCII characters (still inside latin-1)
        for e in lit["exponents"]:
            if sum(e) and ch.sub("bigexp").chance(0.6):
                cand = [ch.sub("bigexp", j).choice([69, 100, 120, 150, 196]) if v else 0 for j, v in enumerate(e)]
                if cand not in lit["exponents"]:
                    e[:] = cand
        lit["big_exponents"] = True
    lit["retain"] = ch.chance(0.3)
    view = ch.weighted([(6, "none"), (2, "T"), (1, "slice")]) if len(shape) >= 1 else "none"
    step: Dict[str, Any] = {"id": 0, "k": kind, "p": lit, "view": view}
    if kind in ("pickle", "copy") and ch.sub("swapped").chance(0.15):
        step["swapped"] = True  # coefficients in the other byte order (foreign data): same name, same scalar type, not the same dtype
    if kind == "pickle":
        step["protocol"] = ch.below(6)
        step["via"] = ch.choice(["dumps", "stream", "oob" if step["protocol"] == 5 else "dumps"])
        step["fault"] = ch.choice([None, None, "write", "read"]) if step["via"] == "stream" else None
        step["update"] = ch.chance(0.3)
    elif kind == "copy":
        step["how"] = ch.choice(["copy", "deepcopy", "method"])
        if len(shape) >= 1 and ch.sub("empty").chance(0.12):
            step["view"] = "empty"  # an array without elements (what slicing past the end gives) still has a shape
    elif kind == "text":
        fmt = ch.choice(FMTS)
        if fmt == "%d" and kindc != "int":
            fmt = "%.18e"
        step.update({
            "fmt": fmt, "delimiter": ch.choice([" ", " ", ",", ";", "\t"]), "header": ch.choice(["", "", "a comment", "two\nlines", "has # and , ; inside", "numpoly: not the real header", "trailing space "]),
            "comments": ch.choice(["# ", "# ", "#", "% "]), "spelling": ch.choice(["numpoly", "numpy"]),
            "target": ch.choice(["simtext", "simbytes", "simtext_enc", "simbytes_enc", "path_str", "path_str", "pathlike", "simraw"]),
            "locale": ch.choice(["utf-8", "utf-8", "latin-1", "ascii"]),
            "fault": ch.weighted([(4, None), (3, "write"), (1, "close"), (2, "read"), (2, "full")]),
            "forward_only": ch.chance(0.4),
            "buffered_reader": ch.chance(0.3),
            "newline": ch.choice(["\n", "\n", "\n", "\r\n"]),
            "encoding": ch.sub("enc").choice([None, None, None, None, "latin-1", "utf-8"]),
            "skiprows": ch.sub("skip").choice([0, 0, 0, 1, 2]),
            "footer": ch.choice(["", "", "", "the end", "\n"]),
        })
        co = ch.sub("typed")
        if fmt == "%d" and co.chance(0.6):
            # integers written exactly are read back exactly when the caller names the type; beyond 2**53 a detour
            # through float64 shows
            step["load_dtype"] = "int64"
            if co.chance(0.6) and "big_exponents" not in lit:
                for col in lit["coefficients"]:
                    for i, v in enumerate(col):
                        if v and co.chance(0.5):
                            col[i] = (1 if v > 0 else -1) * (2 ** co.choice([53, 54, 60, 62]) + co.choice([1, 3, 5]))
        cw = ch.sub("overwrite")
        if step["target"] in ("path_str", "pathlike") and cw.chance(0.5):
            # the same name is written a second (and third) time: what is on disk NOW decides what loads
            n2 = model.gen_names(cw.sub("n"), 1, 4)
            s2 = cw.choice([(), (2,), (3,), (2, 2), tuple(shape)])
            step["then"] = {"p": gen_poly(cw.sub("p"), names=n2, shape=s2, kind=kindc, max_exp=3), "plain": cw.chance(0.5),
                            "rows": [[float(cw.choice([-2, 0, 1, 2.5, 3])) for _ in range(cw.sub("c").between(1, 3))] for _ in range(cw.sub("r").between(1, 4))]}
    else:
        rows, cols = ch.between(1, 4), ch.between(1, 3)
        step["rows"] = [[float(ch.choice([-2, 0, 1, 2.5, 3])) for _ in range(cols)] for _ in range(rows)]
        step["target"] = ch.choice(["simtext", "simbytes", "path_str", "pathlike"])
        step["locale"] = "utf-8"
        cp = ch.sub("plainkw")
        step["comment_lines"] = cp.choice([0, 0, 1, 2])
        step["skiprows"] = cp.choice([0, 0, 1, 2])
    plan = {"property": ID, "run_seed": rs, "tier": tier, "prelude": prelude.gen_prelude(core.Chooser(rs, "prelude")), "steps": [step]}
    if ch.sub("interp").chance(0.02):
        plan["interpreter"] = ["-O"]  # the whole run in `python -O`: assert statements are stripped, __debug__ is False
    return plan


# ---------------------------------------------------------------------------


import errno as _errno

WRITE_ERRNOS = [_errno.EIO, _errno.EINTR, _errno.ENOSPC, _errno.EAGAIN, _errno.ESTALE]


def _view(p: Any, view: str) -> Any:
    if view == "T":
        return p.T
    if view == "slice":
        return p[::-1]
    if view == "empty":
        return p[:0]
    return p


def _tol(fmt: str) -> Optional[dict]:
    return {"%.18e": None, "%d": None, "%.6e": {"rtol": 2e-6, "atol": 0.0}, "%.3f": {"rtol": 0.0, "atol": 6e-4}}[fmt]


class Runner:
    def __init__(self, plan: dict):
        self.plan = plan
        self.rs = plan["run_seed"]
        self.violations: List[dict] = []
        self.events: List[Any] = []
        self.stats: Dict[str, int] = {}
        self.sigs: set = set()
        self.forward_only = any(step.get("forward_only") for step in plan["steps"])
        self.buffered_reader = any(step.get("buffered_reader") for step in plan["steps"])

    def bump(self, key: str, n: int = 1) -> None:
        self.stats[key] = self.stats.get(key, 0) + n

    def violate(self, clause: str, op: str, sid: Any, detail: str, where: Optional[dict] = None) -> None:
        rec = core.Violation(clause, op, detail[:500], where or {}, sid).record()
        if not any(core.vclass(r) == core.vclass(rec) for r in self.violations):
            self.violations.append(rec)
        self.events.append(["violation", sid, clause, op])

    def same_poly(self, a: Any, b: Any, exact_dtype: bool = True, tol: Optional[dict] = None) -> Optional[str]:
        import numpoly

        if not isinstance(b, numpoly.ndpoly):
            return f"returned {type(b).__name__} instead of a polynomial"
        if tuple(a.shape) != tuple(b.shape):
            return f"shape {b.shape}, expected {a.shape}"
        if tuple(a.names) != tuple(b.names):
            return f"names {b.names}, expected {a.names}"
        if exact_dtype and a.dtype != b.dtype:
            return f"dtype {b.dtype}, expected {a.dtype}"
        ca, cb = model.canon(a), model.canon(b)
        if tol is None:
            ok = model.canon_equal(ca, cb, exact=True)
        else:
            ok = set(ca) == set(cb) and all(numpy.allclose(ca[k], cb[k], **tol) for k in ca) if not _fuzzy_keys(ca, cb, tol) else True
        if not ok:
            return f"values {model.canon_text(cb)[:160]}, expected {model.canon_text(ca)[:160]}"
        return None

    # -- pickle / copy ---------------------------------------------------------
    def do_pickle(self, step: dict, p: Any) -> None:
        sid = step["id"]
        proto = step["protocol"]
        via = step["via"]
        where = {"via": via, "view": step["view"]}
        try:
            if via == "dumps":
                q = pickle.loads(pickle.dumps(p, protocol=proto))
            elif via == "oob":
                bufs: List[Any] = []
                data = pickle.dumps(p, protocol=5, buffer_callback=bufs.append)
                q = pickle.loads(data, buffers=bufs)
            else:
                faults = fileseam.Faults()
                stream = fileseam.SimBytes(faults=faults)
                if step.get("fault") == "write":
                    # enumerate: a failure at every write of the dump must surface
                    probe = fileseam.SimBytes()
                    pickle.dump(p, probe, protocol=proto)
                    total = probe.faults.writes
                    for k in range(1, total + 1):
                        f = fileseam.Faults(write_fail_at=k)
                        self.bump("fault:pickle_write.configured")
                        try:
                            pickle.dump(p, fileseam.SimBytes(faults=f), protocol=proto)
                        except OSError:
                            self.bump("fault:pickle_write.fired")
                            self.sigs.add(f"pickle-write|{proto}|{k}|{core.H(core.jdump(step['p']))}")
                            continue
                        self.violate("write-error-surfaces", "pickle.dump", sid, f"write #{k} of {total} raised OSError but dump returned normally", where)
                pickle.dump(p, stream, protocol=proto)
                stream.seek(0)
                if step.get("fault") == "read":
                    content = stream.getvalue()
                    probe = fileseam.SimBytes(content)
                    pickle.load(probe)
                    total = probe.faults.reads
                    for k in range(1, total + 1):
                        f = fileseam.Faults(read_fail_at=k)
                        self.bump("fault:pickle_read.configured")
                        try:
                            q2 = pickle.load(fileseam.SimBytes(content, faults=f))
                        except OSError:
                            self.bump("fault:pickle_read.fired")
                            self.sigs.add(f"pickle-read|{proto}|{k}|{core.H(core.jdump(step['p']))}")
                            continue
                        except Exception:  # noqa: BLE001
                            continue
                        msg = self.same_poly(p, q2)
                        if msg:
                            self.violate("read-error-never-wrong-data", "pickle.load", sid, f"read #{k} failed and load returned a different polynomial: {msg}", where)
                q = pickle.load(stream)
        except Exception as exc:  # noqa: BLE001
            if not core.through_numpoly(exc, NUMPOLY_DIR) and not isinstance(exc, (pickle.PickleError, TypeError, ValueError, AttributeError)):
                raise
            self.violate("pickle-roundtrip", "pickle", sid, f"protocol {proto} via {via}: {type(exc).__name__}: {exc}", where)
            return
        self.bump("decided")
        self.sigs.add(f"pickle|{proto}|{via}|{step['view']}|{core.H(core.jdump(step['p']))}")
        msg = self.same_poly(p, q)
        if msg:
            self.violate("pickle-roundtrip", "pickle", sid, f"protocol {proto} via {via} view={step['view']}: {msg}", where)
        if step.get("update") and msg is None and p.size:
            # history on one object: pickle, overwrite the coefficients in place, pickle again
            vals = p.values
            for key in p.keys:
                vals[key] = vals[key] + 1
            self.bump("probe:repickle_after_inplace_update")
            try:
                q2 = pickle.loads(pickle.dumps(p, protocol=proto))
                msg2 = self.same_poly(p, q2)
            except Exception as exc:  # noqa: BLE001
                msg2 = f"{type(exc).__name__}: {exc}"
            if msg2:
                self.violate("pickle-roundtrip", "pickle", sid, f"protocol {proto}: after the object was updated in place a second pickle gives: {msg2}", dict(where, history="updated-in-place"))
        self.events.append(["pickle", proto, via, model.poly_fingerprint(q) if msg is None else msg])

    def do_copy(self, step: dict, p: Any) -> None:
        sid = step["id"]
        how = step["how"]
        try:
            q = copy.copy(p) if how == "copy" else copy.deepcopy(p) if how == "deepcopy" else p.copy()
        except Exception as exc:  # noqa: BLE001
            self.violate("copy-roundtrip", how, sid, f"{type(exc).__name__}: {exc}", {"view": step["view"]})
            return
        self.bump("decided")
        self.sigs.add(f"copy|{how}|{step['view']}|{core.H(core.jdump(step['p']))}")
        msg = self.same_poly(p, q)
        if msg is None and q is p:
            msg = "returned the very same object"
        if msg:
            self.violate("copy-roundtrip", how, sid, f"view={step['view']}: {msg}", {"view": step["view"]})
        self.events.append(["copy", how, msg or "ok"])

    # -- text --------------------------------------------------------------------
    def _target(self, env: fileseam.FileEnv, kind: str, faults: fileseam.Faults, name: str = "poly.txt") -> Any:
        if kind == "simtext":
            return fileseam.SimText(faults=faults)
        if kind == "simtext_enc":
            return fileseam.SimText(faults=faults, encoding="utf-8")
        if kind == "simbytes":
            return fileseam.SimBytes(faults=faults)
        if kind == "simraw":  # an unbuffered binary file: write() may take only part of the data and say so
            stream = fileseam.SimBytes(faults=faults)
            stream.raw = True
            return stream
        if kind == "simbytes_enc":
            return fileseam.SimBytes(faults=faults, encoding="latin-1")
        env.set_faults(faults)
        path = env.path(name)
        if kind == "path_bytes":
            return os.fsencode(path)
        if kind == "pathlike":
            import pathlib

            return pathlib.Path(path)
        return path

    def _reader(self, env: fileseam.FileEnv, kind: str, target: Any, faults: fileseam.Faults) -> Any:
        if kind.startswith("sim"):
            if kind.startswith("simtext"):
                stream: Any = fileseam.SimText(target.getvalue(), faults=faults, **({"encoding": "utf-8"} if kind.endswith("_enc") else {}))
            elif self.buffered_reader and not kind.endswith("_enc"):
                # the reader is a buffered stream over a source that delivers a few bytes at a time
                stream = fileseam.SimBuffered(target.getvalue(), faults=faults, piece=3 + core.H(self.rs, "piece") % 9)
                self.bump("probe:buffered_reader_with_short_peek")
            else:
                stream = fileseam.SimBytes(target.getvalue(), faults=faults, **({"encoding": "latin-1"} if kind.endswith("_enc") else {}))
            # a forward-only reader (a pipe, a decompressor, an HTTP body): tell() answers, seek() refuses
            if self.forward_only:
                stream.forward_only = True
                self.bump("probe:forward_only_reader")
            return stream
        env.set_faults(faults)
        return target

    def do_text(self, step: dict, p: Any) -> None:
        import numpoly

        sid = step["id"]
        kind = step["target"]
        where = {"target": "stream" if kind.startswith("sim") else "path"}
        save_kw = {"fmt": step["fmt"], "delimiter": step["delimiter"], "header": step["header"], "comments": step["comments"]}
        if step.get("newline", "\n") != "\n":
            save_kw["newline"] = step["newline"]
        if step.get("footer"):
            save_kw["footer"] = step["footer"]
        load_kw = {"delimiter": None if step["delimiter"] == " " else step["delimiter"], "comments": step["comments"]}
        if step.get("encoding"):
            save_kw["encoding"] = load_kw["encoding"] = step["encoding"]
        # skipping lines is harmless as long as only the leading comment lines (numpoly's header, the user's header) go
        nlead = 1 + (len(step["header"].split("\n")) if step["header"] else 0)
        if step.get("skiprows") and step["skiprows"] <= nlead:
            load_kw["skiprows"] = step["skiprows"]
        if step.get("load_dtype"):
            load_kw["dtype"] = numpy.dtype(step["load_dtype"])
        saver = numpoly.savetxt if step["spelling"] == "numpoly" else numpy.savetxt
        tol = _tol(step["fmt"])
        with fileseam.FileEnv(locale=step["locale"]) as env:
            env.self_probe()
            # ---- fault-free save
            f0 = fileseam.Faults()
            target = self._target(env, kind, f0)
            try:
                saver(target, p, **save_kw)
            except Exception as exc:  # noqa: BLE001
                if not (core.through_numpoly(exc, NUMPOLY_DIR) or isinstance(exc, (UnicodeError, OSError, ValueError, TypeError))):
                    raise
                if isinstance(exc, UnicodeError) and step["p"].get("big_exponents"):
                    self.bump("undecided:keys-not-encodable")  # (a key the stream's encoding cannot hold: refusing is fine)
                    return
                self.violate("save-raises", "savetxt", sid, f"{type(exc).__name__}: {exc} (target {kind}, locale {step['locale']}, fmt {step['fmt']})", where)
                return
            nwrites = f0.writes
            self.bump("decided")
            # ---- write faults: every k, and close
            if step.get("fault") == "write":
                for k in range(1, nwrites + 1):
                    # which error: hard ones and the "try again" family (EINTR, EAGAIN, ESTALE) alike
                    f = fileseam.Faults(write_fail_at=k, err=WRITE_ERRNOS[(k + core.H(self.rs, "errno")) % len(WRITE_ERRNOS)])
                    t2 = self._target(env, kind, f, name=f"w{k}.txt")
                    self.bump("fault:write_error.configured")
                    try:
                        saver(t2, p, **save_kw)
                    except OSError:
                        self.bump("fault:write_error.fired")
                        self.sigs.add(f"write|{kind}|{k}|{core.H(core.jdump(step))}")
                        continue
                    except Exception as exc:  # noqa: BLE001
                        self.bump("fault:write_error.fired")
                        self.events.append(["write-fault-other-exc", type(exc).__name__])
                        continue
                    if f.fired:
                        # acknowledged although a write failed: then the file must still be a faithful copy
                        self.bump("probe:write_error_swallowed")
                        msg = self._load_and_compare(env, kind, t2, p, load_kw, tol, fileseam.Faults())
                        if msg:
                            self.violate("acknowledged-save-loadable", "savetxt", sid, f"write #{k} of {nwrites} raised OSError, savetxt returned normally, and the file does not load back: {msg}", where)
            if step.get("fault") == "full":
                # the device fills up after N characters, for several N including inside the first and the last write
                try:
                    total = len(target.getvalue()) if kind.startswith("sim") else os.path.getsize(env.path("poly.txt"))
                except Exception:  # noqa: BLE001
                    total = 0
                caps = sorted({1, total - 1, total // 2} | {1 + core.H(self.rs, "cap", i) % max(1, total - 1) for i in range(4)}) if total > 2 else []
                for cap in caps:
                    f = fileseam.Faults(capacity=cap)
                    t2 = self._target(env, kind, f, name=f"full{cap}.txt")
                    self.bump("fault:device_full.configured")
                    try:
                        saver(t2, p, **save_kw)
                    except OSError:
                        self.bump("fault:device_full.fired")
                        self.sigs.add(f"full|{kind}|{cap * 16 // total}|{core.H(core.jdump(step))}")
                        continue
                    except Exception as exc:  # noqa: BLE001
                        self.bump("fault:device_full.fired")
                        self.events.append(["full-fault-other-exc", type(exc).__name__])
                        continue
                    if f.fired:
                        self.bump("fault:device_full.fired")
                        by = f.short_write_by or ""
                        if by and not os.path.abspath(by).startswith(NUMPOLY_DIR):
                            # the writer that was handed the short count is numpy's row loop, which does not look at it
                            # when no further row follows; not numpoly's call
                            self.bump("undecided:short-count-returned-to-numpy")
                            continue
                        msg = self._load_and_compare(env, kind, t2, p, load_kw, tol, fileseam.Faults())
                        if msg:
                            self.violate("acknowledged-save-loadable", "savetxt", sid, f"device full after {cap} of {total} characters ({f.fired[-1]}), savetxt returned normally, and the file does not load back: {msg}", where)
            if step.get("fault") == "close" and not kind.startswith("sim"):
                f = fileseam.Faults(close_fails=True)
                t2 = self._target(env, kind, f, name="c.txt")
                self.bump("fault:close_error.configured")
                try:
                    saver(t2, p, **save_kw)
                except OSError:
                    self.bump("fault:close_error.fired")
                    self.sigs.add(f"close|{kind}|{core.H(core.jdump(step))}")
                else:
                    if f.fired:
                        msg = self._load_and_compare(env, kind, t2, p, load_kw, tol, fileseam.Faults())
                        if msg:
                            self.violate("acknowledged-save-loadable", "savetxt", sid, f"close raised ENOSPC, savetxt returned normally, and the file does not load back: {msg}", where)
            # ---- fault-free load
            fr = fileseam.Faults()
            msg = self._load_and_compare(env, kind, target, p, load_kw, tol, fr)
            self.sigs.add(f"roundtrip|{kind}|{step['locale']}|{core.H(core.jdump(step))}")
            if msg and step["p"].get("big_exponents") and "raised Unicode" in msg:
                self.bump("undecided:keys-not-decodable")  # (the locale/encoding cannot hold the keys: refusing is fine)
                msg = None
            if msg:
                self.violate("text-roundtrip", "loadtxt", sid, f"target {kind} locale {step['locale']} fmt {step['fmt']!r} delimiter {step['delimiter']!r} comments {step['comments']!r} header {step['header']!r} shape {p.shape} view {step['view']}: {msg}",
                             dict(where, view=step["view"]))
            nreads = fr.reads
            # ---- the same path written again: a second polynomial, then a plain table; each load sees the current file
            if step.get("then") and msg is None and not kind.startswith("sim"):
                then = step["then"]
                try:
                    p2 = model.build_poly(then["p"])
                except core.Undecided:
                    p2 = None
                if p2 is not None:
                    self.bump("probe:same_path_rewritten")
                    try:
                        saver(self._target(env, kind, fileseam.Faults()), p2, **save_kw)
                    except Exception as exc:  # noqa: BLE001
                        if not (core.through_numpoly(exc, NUMPOLY_DIR) or isinstance(exc, (UnicodeError, OSError, ValueError, TypeError))):
                            raise
                        self.violate("save-raises", "savetxt", sid, f"second save to the same path: {type(exc).__name__}: {exc}", where)
                        p2 = None
                if p2 is not None:
                    m2 = self._load_and_compare(env, kind, target, p2, load_kw, tol, fileseam.Faults())
                    if m2:
                        self.violate("text-roundtrip", "loadtxt", sid, f"the path was saved a second time with another polynomial and loaded again: {m2}", dict(where, rewritten=True))
                if then.get("plain"):
                    rows = numpy.array(then["rows"])
                    numpy.savetxt(self._target(env, kind, fileseam.Faults()), rows)
                    try:
                        got = numpoly.loadtxt(self._reader(env, kind, target, fileseam.Faults()))
                    except Exception as exc:  # noqa: BLE001
                        self.violate("headerless-plain-array", "loadtxt", sid, f"a plain table saved over a polynomial file: {type(exc).__name__}: {exc}", dict(where, rewritten=True))
                    else:
                        want = numpy.loadtxt(self._reader(env, kind, target, fileseam.Faults()))
                        if isinstance(got, numpoly.ndpoly) or not isinstance(got, numpy.ndarray) or got.shape != want.shape or not numpy.array_equal(got, want):
                            self.violate("headerless-plain-array", "loadtxt", sid, f"a plain table saved over a polynomial file loads as {type(got).__name__} {getattr(got, 'tolist', lambda: got)()}, expected {want.tolist()}", dict(where, rewritten=True))
            # ---- a file that lost its last data rows (an unacknowledged save, a copy cut at a line boundary): the header
            # still states the shape, so loading raises or restores that shape - never a shorter array
            if msg is None and kind.startswith("sim") and p.size > 1 and not step.get("footer"):
                content = target.getvalue()
                nl = "\n" if isinstance(content, str) else b"\n"
                lines = content.split(nl)
                body = [ln for ln in lines if ln.strip()]
                for drop in (1, 2):
                    if len(body) - drop < 2:
                        break
                    cut = nl.join(body[: len(body) - drop]) + nl
                    torn = fileseam.SimText(cut) if isinstance(content, str) else fileseam.SimBytes(cut)
                    self.bump("fault:torn_file.configured")
                    try:
                        got = numpoly.loadtxt(torn, **load_kw)
                    except Exception:  # noqa: BLE001
                        self.bump("fault:torn_file.fired")
                        continue
                    self.bump("fault:torn_file.fired")
                    if isinstance(got, numpoly.ndpoly) and tuple(got.shape) != tuple(p.shape):
                        self.violate("torn-file-shape", "loadtxt", sid, f"{drop} data row(s) missing: loadtxt returned shape {got.shape}, the header says {p.shape}", where)
                        break
                    if not isinstance(got, numpoly.ndpoly):
                        self.violate("torn-file-shape", "loadtxt", sid, f"{drop} data row(s) missing: a file with a numpoly header loaded as a plain {type(got).__name__} of shape {getattr(got, 'shape', None)}", where)
                        break
            # ---- read faults: every k
            if step.get("fault") == "read" and msg is None:
                for k in range(1, nreads + 1):
                    f = fileseam.Faults(read_fail_at=k)
                    self.bump("fault:read_error.configured")
                    try:
                        reader = self._reader(env, kind, target, f)
                        got = numpoly.loadtxt(reader, **load_kw)
                    except OSError:
                        self.bump("fault:read_error.fired")
                        self.sigs.add(f"read|{kind}|{k}|{core.H(core.jdump(step))}")
                        continue
                    except Exception as exc:  # noqa: BLE001
                        self.bump("fault:read_error.fired")
                        continue
                    if f.fired:
                        m2 = self.same_poly(p, got, exact_dtype=False, tol=tol)
                        if m2:
                            self.violate("read-error-never-wrong-data", "loadtxt", sid, f"read-side call #{k} of {nreads} raised OSError and loadtxt returned a different result: {m2}", where)
            self.events.append(["text", kind, step["locale"], msg or "ok", nwrites, nreads])

    def _load_and_compare(self, env: fileseam.FileEnv, kind: str, target: Any, p: Any, load_kw: dict, tol: Optional[dict], faults: fileseam.Faults) -> Optional[str]:
        import numpoly

        try:
            reader = self._reader(env, kind, target, faults)
            got = numpoly.loadtxt(reader, **load_kw)
        except Exception as exc:  # noqa: BLE001
            if not (core.through_numpoly(exc, NUMPOLY_DIR) or isinstance(exc, (UnicodeError, OSError, ValueError, TypeError))):
                raise
            return f"loadtxt raised {type(exc).__name__}: {exc}"
        return self.same_poly(p, got, exact_dtype=False, tol=tol)

    def do_plain(self, step: dict) -> None:
        import numpoly

        sid = step["id"]
        kind = step["target"]
        rows = numpy.array(step["rows"])
        with fileseam.FileEnv(locale=step["locale"]) as env:
            target = self._target(env, kind, fileseam.Faults(), name="plain.txt")
            numpy.savetxt(target, rows, header="\n".join(["x y", "second"][: step.get("comment_lines", 0)]))
            kw = {"skiprows": step["skiprows"]} if step.get("skiprows") else {}
            try:
                want = numpy.loadtxt(self._reader(env, kind, target, fileseam.Faults()), **kw)
            except Exception:  # noqa: BLE001
                self.bump("undecided:numpy-rejects-arguments")
                return
            try:
                got = numpoly.loadtxt(self._reader(env, kind, target, fileseam.Faults()), **kw)
            except Exception as exc:  # noqa: BLE001
                self.violate("headerless-plain-array", "loadtxt", sid, f"{type(exc).__name__}: {exc}", {"target": "stream" if kind.startswith("sim") else "path"})
                return
        self.bump("decided")
        self.sigs.add(f"plain|{kind}|{rows.shape}|{step.get('comment_lines', 0)}|{step.get('skiprows', 0)}")
        if isinstance(got, numpoly.ndpoly) or not isinstance(got, numpy.ndarray) or got.shape != want.shape or not numpy.array_equal(got, want):
            self.violate("headerless-plain-array", "loadtxt", sid, f"target {kind}: got {getattr(got, 'tolist', lambda: got)()} expected {want.tolist()}", {"target": "stream" if kind.startswith("sim") else "path"})
        self.events.append(["plain", kind, numpy.asarray(got).tolist()])

    def run(self) -> None:
        for step in self.plan["steps"]:
            self.bump(f"op:{step['k']}")
            if step["k"] == "plain":
                self.do_plain(step)
                continue
            try:
                p = _view(model.build_poly(step["p"]), step.get("view", "none"))
            except core.Undecided as exc:
                self.bump(f"undecided:{exc.reason}")
                continue
            if step.get("swapped"):
                p = p.astype(p.dtype.newbyteorder(">"))
                self.bump("probe:byte_swapped_coefficients")
            if step["k"] == "pickle":
                self.do_pickle(step, p)
            elif step["k"] == "copy":
                self.do_copy(step, p)
            else:
                self.do_text(step, p)


def _fuzzy_keys(ca: dict, cb: dict, tol: dict) -> bool:
    """With a lossy format a tiny coefficient may round to zero and its term
    disappear: accept iff every term missing on one side is within tolerance of 0."""
    keys = set(ca) | set(cb)
    for k in keys:
        x = ca.get(k)
        y = cb.get(k)
        if x is None:
            x = numpy.zeros_like(y)
        if y is None:
            y = numpy.zeros_like(x)
        if numpy.shape(x) != numpy.shape(y) or not numpy.allclose(x, y, **tol):
            return False
    return True


def execute(plan: dict) -> dict:
    import logging
    import warnings

    runner = Runner(plan)
    logging.disable(logging.CRITICAL)  # numpy.savetxt on a polynomial logs an advisory warning
    try:
        with warnings.catch_warnings():
            warnings.simplefilter("ignore")
            with numpy.errstate(all="ignore"):
                prelude.run_prelude(plan.get("prelude"), runner.stats)
                runner.run()
    finally:
        logging.disable(logging.NOTSET)
    return {"violations": runner.violations, "events": runner.events, "stats": runner.stats, "sigs": sorted(runner.sigs)}


def simplify(plan: dict):
    if plan.get("interpreter"):
        yield {k: v for k, v in plan.items() if k != "interpreter"}
    if plan.get("prelude"):
        yield dict(plan, prelude=None)
        for i in range(len(plan["prelude"])):
            yield dict(plan, prelude=plan["prelude"][:i] + plan["prelude"][i + 1:] or None)
    step = plan["steps"][0]
    if step.get("view") and step["view"] != "none":
        yield dict(plan, steps=[dict(step, view="none")])
    if step["k"] == "text":
        for key, simple in (("header", ""), ("comments", "# "), ("delimiter", " "), ("fmt", "%.18e"), ("locale", "utf-8"), ("spelling", "numpoly"), ("fault", None), ("newline", "\n"), ("footer", ""), ("buffered_reader", False), ("forward_only", False), ("encoding", None), ("skiprows", 0)):
            if step.get(key) != simple:
                yield dict(plan, steps=[dict(step, **{key: simple})])
    if "p" in step:
        for lit in model.lit_shrinks(step["p"]):
            if step.get("view", "none") != "none" and not lit["shape"]:
                continue
            yield dict(plan, steps=[dict(step, p=lit)])
