"""C15 — option settings never change the mathematical result.

Twin execution: a small dataflow program over a pool of polynomials is run
inside an option history (nested global_options blocks, set_options inside
blocks, blocks left by exceptions) and a second time under the shipped
defaults; step by step the outcome class, shape, coefficient dtype and
canonical value must agree.  Ordering-based steps run under the same sort_*
values in the twin and text steps under the same display_* values (the only
options allowed to influence them); text must also read back (C16 reader).
"""
from __future__ import annotations

import pickle
from typing import Any, Dict, List, Optional

import numpy

from .. import core, model
from ..model import gen_poly
from ..runner import NUMPOLY_DIR
from . import c16

ID = "C15"
LEVEL = "exploration"
RULE = (
    "programs: option history (nested blocks, set_options inside blocks, exception exits; values drawn from each option's domain "
    "incl. retain_names/retain_coefficients/sort_*/display_*/force_number_suffix) interleaved with a dataflow over a pool: "
    "construct (C01 space, operands built under the regime in force and consumed under later ones), + - * **, derivative/gradient/"
    "hessian (by name, index, polynomial), call (full, partial, polynomial arguments), indexing, align_*, clean_attributes, pickle "
    "round trip, comparisons / lead_* / argmax (ordering-based), str/repr (display-based); compared step by step with the twin "
    "execution under defaults. Distinct non-trivial = distinct (operation, non-default option subset in force, operand classes) "
    "with at least one retain/sort/display option away from its default."
)
COMPONENTS = {
    "real": ["numpoly.option", "every numpoly operation of the dataflow catalogue", "numpy"],
    "stand_ins": ["none: the search is over option histories and the regimes operands travel through"],
}
ASSUMPTIONS = [
    "division is not part of the programs (C15 quantifies it under default retain options only)",
    "a step that designates an indeterminate by name is undecided when retain_names=False has (legitimately) pruned that name from the operand",
    "whether all-zero terms and unused names are kept is not compared (that is what the retain options decide)",
]

BOOL_OPTS = ["retain_names", "retain_coefficients", "sort_graded", "sort_reverse", "display_graded", "display_reverse", "display_inverse", "force_number_suffix"]
SORT_OPTS = ["sort_graded", "sort_reverse"]
DISPLAY_OPTS = ["display_graded", "display_reverse", "display_inverse", "display_exponent", "display_multiply"]
ORDERING = {"lt", "le", "gt", "ge", "eq_cmp", "lead_exponent", "lead_coefficient", "argmax", "argmin", "maximum", "minimum", "sortable_proxy"}
DISPLAY = {"str", "repr"}


def setup() -> None:
    c16.setup()


def budget(tier: str) -> int:
    return 2500 if tier == "quick" else 150000


# ---------------------------------------------------------------------------
# generation


def _kw(ch: core.Chooser) -> dict:
    kw = {}
    for key in ch.sample(BOOL_OPTS, ch.between(1, 3)):
        kw[key] = ch.chance(0.5)
    if ch.chance(0.6):
        kw["retain_coefficients"] = ch.chance(0.7)
    if ch.chance(0.5):
        kw["retain_names"] = ch.chance(0.4)
    if ch.chance(0.15):
        kw["display_exponent"], kw["display_multiply"] = ch.choice([("^", "*"), ("**", " * "), ("**", "·")])
    return kw


OPS = ["add", "sub", "mul", "pow", "derivative", "gradient", "hessian", "call_full", "call_partial", "call_poly", "getitem", "align", "clean", "pickle",
       "lt", "eq_cmp", "lead_exponent", "lead_coefficient", "argmax", "maximum", "str", "repr", "neg", "sum", "reshape", "concat", "where", "polynomial",
       "isfinite", "dict_ctor", "noname_ctor", "const_tonumpy", "pow_by_poly", "call_cancelled", "symbols_one", "item_overwritten", "join_monomials", "monomial_default",
       "minimum", "le", "gt", "ge"]


def _gen_op(ch: core.Chooser, nslots: int, names: List[str]) -> dict:
    fn = ch.choice(OPS)
    a = ch.below(nslots)
    b = ch.below(nslots)
    node = {"k": "op", "fn": fn, "ins": [a, b], "out": ch.below(nslots + 1)}
    if fn == "pow":
        node["n"] = ch.choice([0, 1, 2, 3])
    if fn == "derivative":
        node["var"] = ch.choice(names)
        node["by"] = ch.choice(["name", "name", "index", "poly"])
        node["twice"] = ch.chance(0.2)
    if fn in ("call_full", "call_partial", "call_poly"):
        node["vals"] = [ch.choice([0, 1, 2, 3, -1, -2]) for _ in names]  # ints (floats would change the dtype only where an unused name is still listed)
        node["list_arg"] = ch.sub("list").chance(0.2)  # the point given as a list (an array-like)
        node["var"] = ch.choice(names)
    if fn == "getitem":
        node["idx"] = ch.below(2)
    if fn == "call_cancelled":
        node["vals"] = [ch.choice([0, 1, 2, 3]) for _ in names]
        node["var"] = ch.choice(names)
        node["array_arg"] = ch.chance(0.7)
        node["float_arg"] = ch.sub("float").chance(0.4)
    if fn == "join_monomials":
        node["e"] = ch.choice([1, 1, 2, 3])
        node["how"] = ch.choice(["stack", "concatenate", "hstack", "vstack", "dstack", "polynomial"])
    if fn == "symbols_one":
        node["spec"] = ch.choice(["q", "q0", "q1 q2", "q:2", "q", "q3"])
    if fn == "noname_ctor":
        node["rows"] = ch.choice([[[0, 2], [0, 0]], [[0, 1]], [[0, 0, 3], [0, 1, 0]], [[1, 0], [0, 2]], [[0, 0, 1]]])
        node["names"] = ch.sub("names").choice([None, None, "q", "x", "q"])  # one string stands for name0, name1, ...
    return node


def _body(ch: core.Chooser, depth: int, budget_: List[int], nslots: int, names: List[str]) -> List[dict]:
    out: List[dict] = []
    for i in range(ch.between(2, 5)):
        if budget_[0] <= 0:
            break
        budget_[0] -= 1
        c = ch.sub(i)
        kind = c.weighted([(3 if depth < 3 else 0, "block"), (2, "set"), (1, "set_rejected"), (1 if depth else 0, "raise"), (2 if depth < 3 else 0, "catch"), (2, "new"), (9, "op")])
        if kind == "block":
            out.append({"k": "block", "kw": _kw(c.sub("kw")), "body": _body(c.sub("b"), depth + 1, budget_, nslots, names)})
        elif kind == "set":
            out.append({"k": "set", "kw": _kw(c.sub("kw"))})
        elif kind == "set_rejected":
            out.append({"k": "set_rejected", "kw": _kw(c.sub("kw"))})
        elif kind == "raise":
            out.append({"k": "raise"})
        elif kind == "catch":
            out.append({"k": "catch", "body": _body(c.sub("b"), depth, budget_, nslots, names)})
        elif kind == "new":
            out.append({"k": "new", "out": c.below(nslots), "p": _gen_lit(c.sub("p"), names)})
        else:
            out.append(_gen_op(c.sub("op"), nslots, names))
    return out


def _gen_lit(ch: core.Chooser, names: List[str], shape: Optional[tuple] = None) -> dict:
    sub = ch.sample(names, ch.between(1, len(names)))
    sub = sorted(sub, key=model.name_key)
    lit = gen_poly(ch, names=sub, shape=shape if shape is not None else ch.choice([(), (2,), (2,), (2, 2)]), kind=ch.choice(["int", "int", "float"]), max_terms=4, max_exp=2,
                   same_degree=ch.choice([None, None, 3]))
    lit["retain"] = None  # built under the options in force
    ct = ch.sub("tiny")
    if lit["dtype"] == "float64" and ct.chance(0.12):
        # a non-constant term whose coefficients are subnormal numbers: tiny, and not zero
        for e, col in zip(lit["exponents"], lit["coefficients"]):
            if sum(e) and ct.chance(0.6):
                col[:] = [ct.choice([5e-324, 1e-310, -3e-320, 2e-308]) for _ in col]
    return lit


def _number(nodes: List[dict], counter: List[int]) -> None:
    for node in nodes:
        node["id"] = counter[0]
        counter[0] += 1
        if "body" in node:
            _number(node["body"], counter)


def generate(rs: int, tier: str, index: int) -> dict:
    ch = core.Chooser(rs, "plan")
    names = model.gen_names(ch.sub("n"), 2, 3, pool=["q0", "q1", "q2", "q3", "q10"])
    nslots = 4
    shape = ch.choice([(), (2,), (2,), (2, 2)])
    init = [{"k": "new", "out": i, "p": _gen_lit(ch.sub("init", i), names, shape=shape if ch.chance(0.7) else None)} for i in range(nslots)]
    steps = init + _body(ch.sub("body"), 0, [16], nslots, names)
    # make sure some option is away from its default early on
    steps.insert(ch.between(0, nslots), {"k": "set", "kw": _kw(ch.sub("first"))}) if ch.chance(0.5) else steps.insert(nslots, {"k": "block", "kw": _kw(ch.sub("first")), "body": _body(ch.sub("fb"), 1, [8], nslots, names)})
    _number(steps, [0])
    return {"property": ID, "run_seed": rs, "tier": tier, "names": names, "steps": steps}


# ---------------------------------------------------------------------------
# execution


class _Raised(Exception):
    pass


class Exec:
    """One execution of the program (primary: with options; twin: defaults)."""

    def __init__(self, plan: dict, primary: bool, snapshots: Optional[Dict[int, dict]] = None):
        import numpoly

        self.np = numpoly
        self.plan = plan
        self.primary = primary
        self.snap_in = snapshots or {}
        self.snap_out: Dict[int, dict] = {}
        self.pool: Dict[int, Any] = {}
        self.records: Dict[int, dict] = {}
        self.order: List[int] = []
        self.operand_names: Dict[int, tuple] = {}
        self.model: Dict[str, Any] = dict(numpoly.get_options(defaults=True))  # the options the program *asked for*

    def run(self) -> None:
        try:
            self.body(self.plan["steps"])
        except _Raised:
            pass

    def body(self, nodes: List[dict]) -> None:
        for node in nodes:
            self.node(node)

    def node(self, node: dict) -> None:
        k = node["k"]
        if k == "block":
            if self.primary:
                saved = dict(self.model)
                self.model.update(node["kw"])
                try:
                    with self.np.global_options(**node["kw"]):
                        self.body(node["body"])
                finally:
                    self.model = saved
            else:
                self.body(node["body"])
        elif k == "set":
            if self.primary:
                self.np.set_options(**node["kw"])
                self.model.update(node["kw"])
        elif k == "set_rejected":
            if self.primary:
                try:  # valid options first, then an unknown one: must change nothing
                    self.np.set_options(**node["kw"], no_such_option=1)
                except KeyError:
                    pass
        elif k == "raise":
            raise _Raised()
        elif k == "catch":
            try:
                self.body(node["body"])
            except _Raised:
                pass
        elif k == "new":
            self.step(node, lambda: self.build(node["p"]))
        else:
            self.step(node, lambda: self.op(node))

    def build(self, lit: dict) -> Any:
        dtype = numpy.dtype(lit["dtype"])
        shape = tuple(lit["shape"])
        coeffs = [numpy.array(flat, dtype=dtype).reshape(shape) for flat in lit["coefficients"]]
        exps = numpy.array(lit["exponents"], dtype=int).reshape(len(coeffs), len(lit["names"]))
        return self.np.polynomial_from_attributes(exps, coeffs, tuple(lit["names"]))

    def step(self, node: dict, thunk: Any) -> None:
        nid = node["id"]
        if self.primary:
            # the twin runs ordering/text steps under the options the program asked for (not under whatever
            # get_options() reports: a leaked option must show up as a difference)
            self.snap_out[nid] = dict(self.model)
        rec: Dict[str, Any] = {"fn": node.get("fn", "new")}
        fn = node.get("fn")
        ctx: Any = None
        if not self.primary and fn in ORDERING | DISPLAY and nid in self.snap_in:
            keys = SORT_OPTS if fn in ORDERING else DISPLAY_OPTS
            ctx = self.np.global_options(**{key: self.snap_in[nid][key] for key in keys})
        try:
            if ctx is not None:
                with ctx:
                    res = thunk()
            else:
                res = thunk()
            rec["outcome"] = "ok"
            rec["result"] = res
            if "out" in node:
                self.pool[node["out"]] = res
        except core.Undecided as exc:
            rec["outcome"] = "undecided"
            rec["why"] = exc.reason
        except Exception as exc:  # noqa: BLE001
            if not (core.through_numpoly(exc, NUMPOLY_DIR) or isinstance(exc, (TypeError, ValueError, IndexError, AssertionError, KeyError))):
                raise
            rec["outcome"] = "raised"
            rec["exc"] = type(exc).__name__
            rec["msg"] = str(exc)[:160]
        self.records[nid] = rec
        self.order.append(nid)

    def get(self, slot: int) -> Any:
        if slot not in self.pool:
            raise core.Undecided("operand slot empty")
        value = self.pool[slot]
        if isinstance(value, self.np.ndpoly) and len(value.keys) > 48:
            # with retain_coefficients=True every product keeps all its zero terms; a few steps on, one operation takes minutes
            raise core.Undecided("operand carries too many retained terms")
        return value

    def poly(self, slot: int) -> Any:
        v = self.get(slot)
        if not isinstance(v, self.np.ndpoly):
            raise core.Undecided("operand is not a polynomial")
        return v

    def op(self, node: dict) -> Any:
        n = self.np
        fn = node["fn"]
        a = self.poly(node["ins"][0])
        self.operand_names[node["id"]] = tuple(a.names)
        if fn in ("add", "sub", "mul", "align", "lt", "le", "gt", "ge", "eq_cmp", "maximum", "minimum", "concat", "where"):
            b = self.poly(node["ins"][1])
            if fn == "add":
                return a + b
            if fn == "sub":
                return a - b
            if fn == "mul":
                return a * b
            if fn == "align":
                x, y = n.align_polynomials(a, b)
                return x + 0 * y if False else x
            if fn == "lt":
                return a < b
            if fn == "eq_cmp":
                return a == b
            if fn == "maximum":
                return n.maximum(a, b)
            if fn == "minimum":
                return n.minimum(a, b)
            if fn == "le":
                return a <= b
            if fn == "gt":
                return a > b
            if fn == "ge":
                return a >= b
            if fn == "concat":
                if a.shape != b.shape or not a.shape:
                    raise core.Undecided("shapes do not concatenate")
                return n.concatenate([a, b])
            if fn == "where":
                if a.shape != b.shape:
                    raise core.Undecided("shapes differ")
                mask = numpy.arange(int(numpy.prod(a.shape, dtype=int))).reshape(a.shape) % 2 == 0
                return n.where(mask, a, b)
        if fn == "neg":
            return -a
        if fn == "pow":
            return a ** node["n"]
        if fn == "sum":
            return n.sum(a)
        if fn == "reshape":
            return n.reshape(a, (-1,))
        if fn == "polynomial":
            return n.polynomial([a, a]) if a.shape == () else n.polynomial(a)
        if fn == "isfinite":
            if node["ins"][1] % 2:
                return n.isfinite(a)
            # one term that is non-finite in every element (an overflow): no product is involved, so no inf*0
            bad = n.polynomial_from_attributes([[9] + [0] * (len(a.names) - 1)], [numpy.full(a.shape, numpy.inf)], a.names)
            return n.isfinite(a + bad)
        if fn == "dict_ctor":
            # caller-ordered terms, an all-zero non-constant term of another type first
            wider = float if a.dtype.kind in "iub" else complex  # (its type decides the default dtype whether or not the term survives)
            items = [((40,) + (0,) * (len(a.names) - 1), numpy.zeros(a.shape, dtype=wider if node["ins"][1] % 2 else int))]  # (an exponent no operand reaches)
            items += [(tuple(int(v) for v in e), numpy.asarray(c)) for e, c in list(zip(a.exponents.tolist(), a.coefficients))[::-1] if tuple(e) != items[0][0]]
            return n.polynomial(dict(items), names=a.names)
        if fn == "noname_ctor":
            # no names given: the default names are positional, whatever columns are in use
            rows = node.get("rows") or [[0, 2], [0, 0]]
            return n.polynomial_from_attributes(rows, [numpy.full(a.shape, i + 2) for i in range(len(rows))], **({"names": node["names"]} if node.get("names") else {}))
        if fn in ("const_tonumpy", "pow_by_poly"):
            nv = len(a.names)
            three = n.polynomial({(2,) + (0,) * (nv - 1): 0, (0,) * nv: 3}, names=a.names)
            if fn == "const_tonumpy":
                return n.tonumpy(three)
            if a.size > 2:
                raise core.Undecided("operand too large for a power")
            return a ** three
        if fn == "derivative":
            var = node["var"]
            if var not in a.names:
                raise core.Undecided("name pruned from the operand (retain_names) or never present")
            if node["by"] == "name":
                target: Any = var
            elif node["by"] == "index":
                target = list(a.names).index(var)
            else:
                target = n.symbols(var)
            return n.derivative(a, target, target) if node.get("twice") else n.derivative(a, target)
        if fn == "gradient":
            return n.gradient(a)
        if fn == "hessian":
            if a.size > 2:
                raise core.Undecided("hessian too large")
            return n.hessian(a)
        if fn == "join_monomials":
            # one monomial per indeterminate, all with the same exponent (the same storage pattern over different names),
            # joined into one array
            parts = [(i + 2) * n.symbols(nm) ** node["e"] for i, nm in enumerate(self.plan["names"])]
            how = node["how"]
            if how == "polynomial":
                return n.polynomial(parts)
            if how == "concatenate":
                return n.concatenate([n.atleast_1d(x) for x in parts])
            return getattr(n, how)(parts)
        if fn == "monomial_default":
            # construction of the monomial basis with its documented defaults: no option is an argument of it
            return n.monomial(node["ins"][0] % 3 + 2, dimensions=tuple(self.plan["names"]))
        if fn == "symbols_one":
            return n.symbols(node["spec"])
        if fn == "item_overwritten":
            # an item is taken out (basic indexing: an element, a row, a slice), the caller overwrites the item's
            # coefficients in place, and the array it came from is looked at again
            if not a.shape:
                raise core.Undecided("0-d operand has no items")
            item = a[node["ins"][1] % a.shape[0]] if node["out"] % 2 else a[: max(1, a.shape[0] - 1)]
            if isinstance(item, n.ndpoly):
                raw = item.values
                if raw.flags.writeable:
                    for key in raw.dtype.names or ():
                        raw[key][...] = 7
            return a * 1
        if fn == "call_cancelled":
            # a polynomial that became constant because its other terms cancelled, evaluated with a number or an array
            const = (a - a) + 3
            if (len(const.keys) > 6 or int(numpy.max(const.exponents, initial=0)) > 6) and n.get_options()["retain_coefficients"] and len(const.names) > 1:
                raise core.Undecided("operand carries too many retained terms")  # (partial evaluation multiplies the kept symbols term by term)
            var = node["var"]
            if var not in const.names:
                raise core.Undecided("name pruned from the operand (retain_names) or never present")
            v = node["vals"][self.plan["names"].index(var)]
            if node.get("float_arg"):
                # a float point for an integer polynomial: the result type must not depend on which zero terms are kept
                # (with names pruned the promotion legitimately differs, see the module docstring: not judged then)
                if not n.get_options()["retain_names"]:
                    raise core.Undecided("float argument while names are being pruned")
                v = v + 0.5
            return const(**{var: numpy.array([v, v + 1, v + 3]) if node.get("array_arg") else v})
        if fn in ("call_full", "call_partial", "call_poly"):
            vals = dict(zip(self.plan["names"], node["vals"]))
            if node.get("list_arg"):
                vals = {k: [v, v + 1] for k, v in vals.items()}
            if fn == "call_full":
                return a(**{nm: vals[nm] for nm in a.names})
            var = node["var"]
            if var not in a.names:
                raise core.Undecided("name pruned from the operand (retain_names) or never present")
            if fn == "call_partial":
                if (len(a.keys) > 8 or int(numpy.max(a.exponents, initial=0)) > 8) and n.get_options()["retain_coefficients"]:
                    raise core.Undecided("operand carries too many retained terms")
                return a(**{var: vals[var]})
            if (len(a.keys) > 6 or int(numpy.max(a.exponents, initial=0)) > 6) and n.get_options()["retain_coefficients"]:
                # substituting a polynomial multiplies term by term and, with every zero term retained, takes minutes
                raise core.Undecided("operand carries too many retained terms")
            other = [nm for nm in self.plan["names"] if nm != var]  # independent of which names the operand still lists
            return a(**{var: n.symbols(other[0]) + 1})
        if fn == "getitem":
            if not a.shape:
                return a[()]
            return a[node["idx"] % a.shape[0]]
        if fn == "clean":
            return n.clean_attributes(a)
        if fn == "pickle":
            return pickle.loads(pickle.dumps(a))
        if fn == "lead_exponent":
            o = n.get_options()
            return n.lead_exponent(a, graded=o["sort_graded"], reverse=o["sort_reverse"])
        if fn == "lead_coefficient":
            o = n.get_options()
            return n.lead_coefficient(a, graded=o["sort_graded"], reverse=o["sort_reverse"])
        if fn == "argmax":
            return n.argmax(a)
        if fn == "str":
            return str(a)
        if fn == "repr":
            return repr(a)
        raise core.HarnessError(fn)


def _describe(res: Any, numpoly: Any) -> tuple:
    """(type class, shape, dtype, comparable value)."""
    if isinstance(res, numpoly.ndpoly):
        return ("poly", tuple(res.shape), str(res.dtype), model.canon(res))
    if isinstance(res, numpy.ndarray):
        return ("array", res.shape, str(res.dtype), res)
    if isinstance(res, str):
        return ("str", None, None, res)
    if isinstance(res, (tuple, list)):
        return ("seq", len(res), None, [_describe(r, numpoly) for r in res])
    if isinstance(res, (numpy.generic, int, float, complex, bool)):
        arr = numpy.asarray(res)
        return ("array", (), str(arr.dtype), arr)  # numpy scalar vs 0-d array: the same value
    return ("other", None, None, repr(res))


def _same_value(x: Any, y: Any) -> bool:
    if isinstance(x, dict) and isinstance(y, dict):
        return model.canon_equal(x, y, exact=False, rtol=1e-12)
    if isinstance(x, numpy.ndarray) and isinstance(y, numpy.ndarray):
        return x.shape == y.shape and bool(numpy.allclose(x, y, rtol=1e-12, atol=0, equal_nan=True))
    if isinstance(x, list) and isinstance(y, list):
        return len(x) == len(y) and all(a[:3] == b[:3] and _same_value(a[3], b[3]) for a, b in zip(x, y))
    return x == y


def execute(plan: dict) -> dict:
    import warnings

    import numpoly

    violations: List[dict] = []
    events: List[Any] = []
    stats: Dict[str, int] = {}
    sigs: set = set()
    defaults = numpoly.get_options(defaults=True)

    def bump(key: str, n: int = 1) -> None:
        stats[key] = stats.get(key, 0) + n

    def violate(clause: str, op: str, sid: Any, detail: str, where: dict) -> None:
        rec = core.Violation(clause, op, detail[:600], where, sid).record()
        if not any(core.vclass(r) == core.vclass(rec) for r in violations):
            violations.append(rec)
        events.append(["violation", sid, clause, op])

    with warnings.catch_warnings():
        warnings.simplefilter("ignore")
        with numpy.errstate(all="ignore"):
            numpoly.set_options(**defaults)
            primary = Exec(plan, True)
            try:
                primary.run()
            finally:
                numpoly.set_options(**defaults)
            twin = Exec(plan, False, primary.snap_out)
            try:
                twin.run()
            finally:
                numpoly.set_options(**defaults)
    if primary.order != twin.order:
        raise core.HarnessError("primary and twin executed different steps")
    for nid in primary.order:
        r1, r2 = primary.records[nid], twin.records[nid]
        fn = r1["fn"]
        opts = primary.snap_out.get(nid, {})
        nondefault = sorted(k for k in BOOL_OPTS + ["display_exponent", "display_multiply"] if opts.get(k) != defaults.get(k))
        where = {"retain_coefficients": bool(opts.get("retain_coefficients")), "retain_names": bool(opts.get("retain_names"))}
        bump(f"op:{fn}")
        if r2["outcome"] == "undecided" or r1["outcome"] == "undecided":
            if r1["outcome"] != r2["outcome"]:
                # the primary lost a name the twin still has (or vice versa): downstream values are incomparable
                bump("undecided:" + (r1.get("why") or r2.get("why") or "?"))
                break
            bump("undecided:" + r1["why"])
            continue
        bump("decided")
        if nondefault:
            sigs.add(f"{fn}|{','.join(nondefault)}")
            bump("probe:step_under_nondefault_options")
        if fn in ("gradient", "hessian", "lead_exponent") and primary.operand_names.get(nid) != twin.operand_names.get(nid):
            # positional results: their width follows the operand's names, which the retain options may prune
            bump("undecided:positional-result-follows-pruned-names")
            break
        if r1["outcome"] != r2["outcome"]:
            if r2["outcome"] != "ok":
                bump("undecided:fails-under-defaults-only")
                break
            if r2["outcome"] == "ok":
                violate("fails-under-options", fn, nid, f"raises {r1.get('exc')}: {r1.get('msg')} under {nondefault}, succeeds under defaults", dict(where, exc=r1.get("exc")))
            else:
                violate("outcome-differs", fn, nid, f"succeeds under {nondefault} but raises {r2.get('exc')}: {r2.get('msg')} under defaults", where)
            break  # the pools have diverged
        if r1["outcome"] == "raised":
            events.append([nid, fn, "raised", r1["exc"]])
            if r1["exc"] != r2["exc"]:
                bump("probe:different_exception_types")
            continue
        d1, d2 = _describe(r1["result"], numpoly), _describe(r2["result"], numpoly)
        if d1[0] != d2[0] or d1[1] != d2[1]:
            violate("shape-differs", fn, nid, f"{d1[:3]} under {nondefault} vs {d2[:3]} under defaults", where)
            break
        if d1[2] != d2[2]:
            violate("dtype-differs", fn, nid, f"dtype {d1[2]} under {nondefault} vs {d2[2]} under defaults", where)
            break
        if not _same_value(d1[3], d2[3]):
            if fn == "lead_exponent" and numpy.shape(d1[3]) != numpy.shape(d2[3]):
                bump("undecided:lead_exponent-width-follows-names")
                continue
            text1 = model.canon_text(d1[3])[:200] if isinstance(d1[3], dict) else str(d1[3])[:200]
            text2 = model.canon_text(d2[3])[:200] if isinstance(d2[3], dict) else str(d2[3])[:200]
            violate("value-differs", fn, nid, f"{text1} under {nondefault} vs {text2} under defaults", where)
            break
        events.append([nid, fn, d1[0], str(d1[1]), d1[2], model.canon_text(d1[3])[:300] if isinstance(d1[3], dict) else str(d1[3])[:300]])
    return {"violations": violations, "events": events, "stats": stats, "sigs": sorted(sigs)}


def _walk(nodes: List[dict], path: tuple = ()):
    for i, node in enumerate(nodes):
        yield path + (i,), node
        if "body" in node:
            yield from _walk(node["body"], path + (i, "body"))


def _replace(nodes: List[dict], path: tuple, new: Optional[List[dict]]) -> List[dict]:
    i = path[0]
    if len(path) == 1:
        return nodes[:i] + (new or []) + nodes[i + 1:]
    node = dict(nodes[i])
    node["body"] = _replace(node["body"], path[2:], new)
    return nodes[:i] + [node] + nodes[i + 1:]


def simplify(plan: dict):
    steps = plan["steps"]
    for path, node in list(_walk(steps)):
        yield dict(plan, steps=_replace(steps, path, []))
        if "body" in node and node["k"] == "catch":
            yield dict(plan, steps=_replace(steps, path, node["body"]))
        kw = node.get("kw")
        if kw and len(kw) > 1:
            for key in sorted(kw):
                yield dict(plan, steps=_replace(steps, path, [dict(node, kw={k: v for k, v in kw.items() if k != key})]))
        if node["k"] == "new":
            for lit in model.lit_shrinks(node["p"]):
                yield dict(plan, steps=_replace(steps, path, [dict(node, p=lit)]))
