"""C07 — comparison operators form one documented strict total order.

The verdict of every comparison walks the aligned terms in glexsort order, so
it depends on the tie order of the sort (SortSeam) and on the sort_* option
state (reached through option histories).  Oracle: the documented order
computed independently on canonical term dictionaries.
"""
from __future__ import annotations

import json
import operator
from typing import Any, Dict, List, Optional, Tuple

import numpy

from .. import prelude, core, model, seams
from ..runner import NUMPOLY_DIR
from ..model import gen_poly

ID = "C07"
LEVEL = "exploration"
RULE = (
    "pairs/triples of polynomial arrays over <=3 names biased to many terms of equal total degree and to operands that differ "
    "in >=2 monomials of the same degree (the only situation in which tie order matters), constants, equal operands, "
    "absent-vs-zero terms, int/float (complex for ==/!=) coefficients, broadcasting shapes, plain partners; a bounded universe "
    "of small polynomials for transitivity triples. Every case runs under all four sort_graded/sort_reverse settings (reached "
    "directly, through nested blocks, or through set_options inside a block) x tie policies {stable + one seeded of reversed/"
    "rotated/prng (quick), all (thorough)}. Distinct non-trivial = distinct (case, setting, policy) in which the operands "
    "differ in at least two monomials of equal total degree."
)
COMPONENTS = {
    "real": ["numpoly comparison functions/operators, maximum/minimum, align, glexsort", "numpoly.option", "numpy"],
    "stand_ins": ["tie order of numpy's unstable argsort (module-level calls inside numpoly)"],
}
ASSUMPTIONS = [
    "operand names are listed in numeric-suffix order (the order alignment produces)",
    "no NaN/inf coefficients",
]

OPS = [("lt", operator.lt, "less"), ("le", operator.le, "less_equal"), ("gt", operator.gt, "greater"),
       ("ge", operator.ge, "greater_equal"), ("eq", operator.eq, "equal"), ("ne", operator.ne, "not_equal")]
ALL_POLICIES = ["stable", "reversed", "rotated", "prng"]


def setup() -> None:
    pass


def budget(tier: str) -> int:
    return 2400 if tier == "quick" else 60000


# ---------------------------------------------------------------------------


def _near(ch: core.Chooser, lit: dict) -> dict:
    """A polynomial that differs from `lit` in a few coefficients (often at
    several monomials of the same degree)."""
    out = dict(lit, coefficients=[list(c) for c in lit["coefficients"]])
    n = len(out["coefficients"])
    size = len(out["coefficients"][0]) if n else 0
    if not n or not size:
        return out
    for _ in range(ch.between(1, 3)):
        t = ch.below(n)
        j = ch.below(size)
        v = out["coefficients"][t][j]
        delta = ch.choice([-2, -1, 1, 2]) if "int" in lit["dtype"] else ch.choice([-0.5, 0.25, 1.0])
        out["coefficients"][t][j] = (v + delta) if not isinstance(v, list) else v
    return out


def _small_universe(ch: core.Chooser, names: List[str]) -> dict:
    nv = len(names)
    exps = [e for e in ([0] * nv, *[[int(i == j) for i in range(nv)] for j in range(nv)], *[[2 * int(i == j) for i in range(nv)] for j in range(nv)], [1] * nv) if sum(e) <= 2]
    uniq = []
    for e in exps:
        if e not in uniq:
            uniq.append(e)
    coeffs = [[ch.choice([-1, 0, 0, 1, 2])] for _ in uniq]
    return {"names": names, "shape": [], "dtype": "int64", "exponents": uniq, "coefficients": coeffs, "retain": True}


def _other(ch: core.Chooser) -> dict:
    if not ch.chance(0.3):
        return {}
    return {"retain_names": ch.chance(0.3), "retain_coefficients": ch.chance(0.5)}


def _reach(ch: core.Chooser) -> str:
    return ch.weighted([(5, "direct"), (2, "nested"), (2, "set_inside"), (2, "after_failed_history")])


def generate(rs: int, tier: str, index: int) -> dict:
    ch = core.Chooser(rs, "plan")
    kind = ch.weighted([(6, "pair"), (3, "triple"), (1, "plain")])
    names = model.gen_names(ch.sub("n"), 1, 3)
    steps: List[dict] = []
    if kind == "triple":
        if ch.chance(0.6):
            names = names[:2]
            polys = [_small_universe(ch.sub("u", i), names) for i in range(3)]
        else:
            base = gen_poly(ch.sub("a"), names=names, shape=(), same_degree=ch.between(3, 6), kind="int")
            polys = [base, _near(ch.sub("b"), base), _near(ch.sub("c"), base)]
        steps.append({"id": 0, "k": "triple", "polys": polys, "reach": _reach(ch.sub("r")), "other_options": _other(ch.sub("oo"))})
    else:
        kindc = ch.weighted([(5, "int"), (3, "float"), (1, "complex")])
        shape = ch.choice([(), (), (2,), (3,), (2, 2), (1, 3), (2, 1, 2)])
        a = gen_poly(ch.sub("a"), names=names, shape=shape, same_degree=ch.choice([None, 3, 5, 8, 12]), kind=kindc, max_exp=3)
        mode = ch.below(10)
        if kind == "plain":
            size = int(numpy.prod(shape, dtype=int))
            vals = model.gen_coeff_values(ch.sub("pv"), size, "float" if kindc == "float" else "int")
            b: Any = {"array": model.lit_array(numpy.array(vals, dtype="float64" if kindc == "float" else "int64").reshape(shape), "float64" if kindc == "float" else "int64")} if ch.chance(0.6) else {"scalar": ch.choice([0, 1, -2, 3])}
        elif mode < 4:
            b = {"poly": _near(ch.sub("b"), a)}
        elif mode < 5:
            b = {"poly": a}  # equal operands
        elif mode < 6:
            # differs only by an absent-vs-zero term
            extra = [e for e in ([1] * len(names), [3] + [0] * (len(names) - 1)) if e not in a["exponents"]]
            zero = [0j if False else 0] * len(a["coefficients"][0]) if a["coefficients"] else []
            b = {"poly": dict(a, exponents=a["exponents"] + extra[:1], coefficients=a["coefficients"] + ([[[0.0, 0.0]] * len(zero)] if kindc == "complex" else [[0.0 if kindc == "float" else 0] * len(zero)]) * len(extra[:1]))}
        elif mode < 7 and ch.sub("dense").chance(0.25):
            # dense operands: every monomial up to a degree, 66-84 terms in all (a score accumulated over the terms must
            # not run out of bits), differing in one high-ranking and one low-ranking coefficient
            cd = ch.sub("dense")
            dnames = names[:2] if len(names) >= 2 and cd.chance(0.6) else (names + [n for n in ["q12", "q13", "q14"] if n not in names])[:3]
            nvd = len(dnames)
            top = 10 if nvd == 2 else 6
            import itertools

            exps = [list(e) for e in itertools.product(range(top + 1), repeat=nvd) if sum(e) <= top]
            coeffs_a = [[cd.choice([-2, -1, 1, 2, 3])] for _ in exps]
            coeffs_b = [list(c) for c in coeffs_a]
            for which in (cd.below(len(exps)), cd.below(len(exps))):
                coeffs_b[which] = [coeffs_a[which][0] + cd.choice([-1, 1])]
            a = {"names": list(dnames), "shape": [], "dtype": "int64", "exponents": exps, "coefficients": coeffs_a, "retain": True}
            b = {"poly": {"names": list(dnames), "shape": [], "dtype": "int64", "exponents": [list(e) for e in exps], "coefficients": coeffs_b, "retain": True}}
            shape = ()
        elif mode < 7:
            # the same storage layout (shape, dtype, term keys) over other indeterminates: only the names tuple differs
            pool = [n for n in ["q0", "q1", "q2", "q3", "q10", "q12"] if n not in names]
            other = sorted(ch.sample(pool, len(names)), key=model.name_key)
            src = a if ch.chance(0.5) else _near(ch.sub("b"), a)
            b = {"poly": dict(json.loads(json.dumps(src)), names=other)}
        else:
            rel = ch.below(3)
            bn = names if rel == 0 else model.gen_names(ch.sub("bn"), 1, 3)
            bshape = model.broadcast_partner_shape(ch.sub("bs"), shape) if ch.chance(0.4) else shape
            b = {"poly": gen_poly(ch.sub("b"), names=bn, shape=bshape, same_degree=ch.choice([None, 3, 6]), kind=kindc, max_exp=3)}
        swap = kind == "plain" and ch.chance(0.4)
        # other coefficient dtypes: unsigned (differences wrap), narrow ints, float32, int64 extremes
        if kindc == "int" and kind != "plain" and ch.chance(0.3):
            dt = ch.choice(["uint8", "uint32", "uint64", "int8", "int32", "uint16"])
            for lit in (a, b["poly"]):
                lit["dtype"] = dt
                if dt.startswith("u"):
                    lit["coefficients"] = [[abs(v) for v in col] for col in lit["coefficients"]]
        elif kindc == "int" and kind != "plain" and ch.chance(0.08):
            big = [2**63 - 1, -(2**63) + 1, 2**62, -(2**62)]
            for lit in (a, b["poly"]):
                for col in lit["coefficients"]:
                    for j in range(len(col)):
                        if ch.chance(0.3):
                            col[j] = ch.choice(big)
        elif kindc == "int" and kind != "plain" and ch.chance(0.08):
            # signed against unsigned 64-bit: numpy's common type of the two is float64, which cannot tell
            # neighbouring integers above 2**53 apart - the comparison has to be made on the integers
            near = [2**53, 2**53 + 1, 2**53 + 2, 2**62, 2**62 + 1, 2**63 - 1, 2**63 - 2, 1, 0]
            for lit, dt in ((a, "int64"), (b["poly"], "uint64")):
                lit["dtype"] = dt
                lit["coefficients"] = [[(ch.choice(near) if ch.chance(0.7) else abs(v)) for v in col] for col in lit["coefficients"]]
        elif kindc == "float" and kind != "plain" and ch.chance(0.15):
            for lit in (a, b["poly"]):
                lit["dtype"] = "float32"
                lit["coefficients"] = [[float(numpy.float32(v)) for v in col] for col in lit["coefficients"]]
        steps.append({"id": 0, "k": "pair", "a": {"poly": a}, "b": b, "swap": swap, "complex": kindc == "complex",
                      "extra_op": ch.below(6), "reach": _reach(ch.sub("r")), "other_options": _other(ch.sub("oo"))})
        if ch.sub("abort").chance(0.15):
            steps[-1]["abort_first"] = ch.sub("abort").below(100000)
        if ch.sub("scribble").chance(0.12):
            steps[-1]["scribble"] = True
        if ch.sub("busy").chance(0.1):
            steps[-1]["interleave"] = ch.sub("busy").below(100000)
        if ch.sub("thread").chance(0.12):
            steps[-1]["in_thread"] = True  # the comparisons are evaluated by a thread started while the sort options are in force
        if kind != "plain" and mode == 4 and ch.sub("same").chance(0.6):
            steps[-1]["same_object"] = True  # p compared with p itself, not with an equal copy
        cr = ch.sub("rewrite")
        if kind != "plain" and cr.chance(0.3):
            # history: the operands were compared before; then one of them got new coefficient values in place
            # (same terms, same storage) and the comparison is made again on the very same objects
            sizes = {w: int(numpy.prod(lit["shape"], dtype=int)) for w, lit in (("a", a), ("b", b["poly"]))}
            which = "b" if sizes["b"] < sizes["a"] or (sizes["a"] == sizes["b"] and cr.chance(0.5)) else "a"
            lit = a if which == "a" else b["poly"]
            cols = [list(col) for col in lit["coefficients"]]
            cols = [col[1:] + col[:1] for col in cols[::-1]] if cr.chance(0.5) else [col[::-1] for col in cols[1:] + cols[:1]]
            if cr.chance(0.5) and not str(lit.get("dtype", "")).startswith("u") and kindc == "int" and all(abs(v) < 2**62 for col in cols for v in col):
                cols = [[-v for v in col] for col in cols]
            steps[-1]["rewrite"] = {"which": which, "coefficients": cols}
    pols = ALL_POLICIES if tier == "thorough" else ["stable", ch.choice(ALL_POLICIES[1:])]
    return {"property": ID, "run_seed": rs, "tier": tier, "prelude": prelude.gen_prelude(core.Chooser(rs, "prelude")), "policies": pols, "steps": steps}


# ---------------------------------------------------------------------------


def _shape(x: Any) -> tuple:
    return tuple(x.shape) if hasattr(x, "shape") else numpy.shape(x)


def union_names(*polys: Any) -> Tuple[str, ...]:
    names = set()
    for p in polys:
        names.update(p.names)
    return tuple(sorted(names, key=model.name_key))


def as_elements(value: Any, names: Tuple[str, ...], shape: tuple) -> List[Dict[tuple, Any]]:
    """Elements of a poly / plain value broadcast to `shape` (flattened)."""
    import numpoly

    if isinstance(value, numpoly.ndpoly):
        _, els = model.elements(value, names)
        idx = numpy.broadcast_to(numpy.arange(len(els)).reshape(value.shape), shape).ravel()
        return [els[i] for i in idx]
    arr = numpy.broadcast_to(numpy.asarray(value), shape).ravel()
    zero = (0,) * len(names)
    return [({zero: v} if v != 0 else {}) for v in arr.tolist()]


class reach_options:
    """Enter the sort setting through one of several option histories."""

    def __init__(self, how: str, graded: bool, reverse: bool, other: Optional[dict] = None):
        self.how, self.g, self.r = how, graded, reverse
        self.other = other or {}
        self.stack: List[Any] = []

    def __enter__(self) -> None:
        import numpoly

        if self.how == "after_failed_history":
            # earlier in the process a block asking for the opposite order was left by an exception and an update naming
            # an unknown option was refused; neither may leave anything behind. The shipped order is then used as it
            # is found (nothing selects it); the other three settings are selected directly.
            try:
                with numpoly.global_options(sort_graded=not self.g, sort_reverse=not self.r):
                    raise KeyboardInterrupt("leave the block")
            except KeyboardInterrupt:
                pass
            try:
                numpoly.set_options(sort_graded=not self.g, sort_reverse=not self.r, no_such_option=1)
            except KeyError:
                pass
            defaults = numpoly.get_options(defaults=True)
            if (self.g, self.r) == (defaults["sort_graded"], defaults["sort_reverse"]):
                cms = []
            else:
                cms = [numpoly.global_options(sort_graded=self.g, sort_reverse=self.r)]
        elif self.how == "direct":
            cms = [numpoly.global_options(sort_graded=self.g, sort_reverse=self.r)]
        elif self.how == "nested":
            cms = [numpoly.global_options(sort_graded=not self.g, sort_reverse=not self.r, retain_names=True),
                   numpoly.global_options(sort_graded=self.g), numpoly.global_options(sort_reverse=self.r)]
        else:
            cms = [numpoly.global_options(sort_graded=not self.g)]
        if self.other:  # the order says nothing about the retain options: it must hold whatever they are
            cms.append(numpoly.global_options(**self.other))
        for cm in cms:
            cm.__enter__()
            self.stack.append(cm)
        if self.how == "set_inside":
            numpoly.set_options(sort_graded=self.g, sort_reverse=self.r)

    def __exit__(self, *exc: Any) -> None:
        while self.stack:
            self.stack.pop().__exit__(None, None, None)


class selected_while_busy:
    """The sort setting is selected (by "this" thread) while a comparison begun earlier (by another thread, under the
    options of that moment) is still under way: the selection is made at executed line k of that comparison, which then
    runs to its end.  A comparison has no business writing options, so the selection stands."""

    def __init__(self, ctx: reach_options, k: int, busy) -> None:
        self.ctx, self.k, self.busy = ctx, k, busy
        self.entered = False

    def _enter(self) -> None:
        self.ctx.__enter__()
        self.entered = True

    def __enter__(self) -> None:
        tracer = seams.LineTracer(NUMPOLY_DIR, k=self.k, action=self._enter)
        try:
            tracer.run(self.busy)
        except core.HarnessError:
            raise
        except Exception:  # noqa: BLE001
            pass
        if not self.entered:
            self._enter()

    def __exit__(self, *exc: Any) -> None:
        self.ctx.__exit__(None, None, None)


class Runner:
    def __init__(self, plan: dict):
        self.plan = plan
        self.rs = plan["run_seed"]
        self.violations: List[dict] = []
        self.events: List[Any] = []
        self.stats: Dict[str, int] = {}
        self.sigs: set = set()

    def bump(self, key: str, n: int = 1) -> None:
        self.stats[key] = self.stats.get(key, 0) + n

    def violate(self, clause: str, op: str, sid: Any, detail: str, where: dict) -> None:
        rec = core.Violation(clause, op, detail, where, sid).record()
        if not any(core.vclass(r) == core.vclass(rec) for r in self.violations):
            self.violations.append(rec)
        self.events.append(["violation", sid, clause, op])

    def settings(self):
        for g in (True, False):
            for r in (False, True):
                for pol in self.plan["policies"]:
                    yield g, r, pol

    def _evaluate(self, step: dict, left: Any, right: Any, is_complex: bool, got: dict, spellings: dict, mm: dict, pol: str, sid: Any) -> None:
        """All operators, one of them through the numpy / numpoly spellings, and maximum/minimum."""
        import numpoly

        for name, opf, fname in OPS:
            if is_complex and name not in ("eq", "ne"):
                continue
            try:
                got[name] = opf(left, right)
            except Exception as exc:  # noqa: BLE001
                self.violate("comparison-raises", name, sid, f"{type(exc).__name__}: {exc}", {"policy": pol})
                got[name] = None
        xname, _opf, fname = OPS[step.get("extra_op", 0) % 6]
        if is_complex:
            xname, _opf, fname = OPS[4 + step.get("extra_op", 0) % 2]
        for label, mod in (("numpy", numpy), ("numpoly", numpoly)):
            try:
                spellings[label] = getattr(mod, fname)(left, right)
            except Exception as exc:  # noqa: BLE001
                spellings[label] = exc
        if not is_complex:
            for fn in ("maximum", "minimum"):
                try:
                    mm[fn] = getattr(numpoly, fn)(left, right)
                except Exception as exc:  # noqa: BLE001
                    mm[fn] = exc

    # -- pair --------------------------------------------------------------
    def do_pair(self, step: dict) -> None:
        import numpoly

        try:
            a = model.build_value(step["a"])
            b = model.build_value(step["b"])
        except core.Undecided as exc:
            self.bump(f"undecided:{exc.reason}")
            return
        if step.get("same_object") and not step.get("rewrite"):
            b = a
        if step.get("scribble"):
            # an earlier caller edited the arrays the accessors handed out (computed copies), also those of another
            # polynomial with the same terms
            for x in [a, b] + ([a * 1] if isinstance(a, numpoly.ndpoly) else []):
                if isinstance(x, numpoly.ndpoly) and x.size:
                    e = x.exponents
                    if e.flags.writeable:
                        e[...] = e[:, ::-1] * 2 + 1
                    for c in x.coefficients:
                        arr = numpy.asarray(c)
                        if arr.flags.writeable and arr.size:
                            arr[...] = 7
            self.bump("probe:accessor_results_scribbled")
        left, right = (b, a) if step.get("swap") else (a, b)
        ref_a, ref_b = a, b
        if step.get("rewrite"):
            rw = step["rewrite"]
            target = a if rw["which"] == "a" else b
            try:
                fresh = model.build_value({"poly": dict(step[rw["which"]]["poly"], coefficients=rw["coefficients"])})
            except core.Undecided as exc:
                self.bump(f"undecided:{exc.reason}")
                return
            if not (isinstance(target, numpoly.ndpoly) and list(fresh.keys) == list(target.keys) and fresh.dtype == target.dtype and fresh.shape == target.shape):
                self.bump("undecided:rewrite-changes-terms")
                return
            with numpoly.global_options(**(step.get("other_options") or {})):
                for _name, opf, fname in OPS:
                    if step.get("complex") and _name not in ("eq", "ne"):
                        continue
                    try:
                        opf(left, right)
                        getattr(numpoly, fname)(left, right)
                    except Exception:  # noqa: BLE001
                        pass
                for fn in ("maximum", "minimum"):
                    try:
                        getattr(numpoly, fn)(left, right)
                    except Exception:  # noqa: BLE001
                        pass
            for key in target.keys:
                target.values[key] = fresh.values[key]
            self.bump("probe:compared_again_after_in_place_update")
            # the reference is computed from an object that has no past
            if rw["which"] == "a":
                ref_a = fresh
            else:
                ref_b = fresh
        if step.get("abort_first") is not None:
            # history: the same comparison was requested before and aborted part-way
            xop = OPS[step["abort_first"] % (2 if step.get("complex") else 6) + (4 if step.get("complex") else 0)][1]
            seams.interrupted_first(lambda: xop(left, right), NUMPOLY_DIR, step["abort_first"] // 7, self.stats)
        ref_left, ref_right = (ref_b, ref_a) if step.get("swap") else (ref_a, ref_b)
        polys = [x for x in (ref_a, ref_b) if isinstance(x, numpoly.ndpoly)]
        names = union_names(*polys)
        shape = numpy.broadcast_shapes(_shape(left), _shape(right))
        el_l = as_elements(ref_left, names, shape)
        el_r = as_elements(ref_right, names, shape)
        same_degree_diff = self._nontrivial(el_l, el_r)
        is_complex = step.get("complex")
        verdicts = {}
        for g, r, pol in self.settings():
            sid = step["id"]
            want = numpy.array([0 if is_complex else model.compare_elements(x, y, g, r) for x, y in zip(el_l, el_r)], dtype=int).reshape(shape)
            eq_want = numpy.array([self._el_equal(x, y) for x, y in zip(el_l, el_r)], dtype=bool).reshape(shape)
            where = {"graded": g, "reverse": r, "policy": pol}
            selection: Any = reach_options(step.get("reach", "direct"), g, r, step.get("other_options"))
            if step.get("interleave") is not None:
                selection = selected_while_busy(selection, 1 + step["interleave"] % 120, lambda: operator.lt(left, right))
                self.bump("probe:selection_made_while_a_comparison_is_under_way")
            with seams.Env(core.H(self.rs, pol, g, r), sort=pol, fill="a5") as env, selection:
                env.begin_step(sid)
                got: Dict[str, Any] = {}
                spellings: Dict[str, Any] = {}
                mm: Dict[str, Any] = {}

                def evaluate() -> None:
                    self._evaluate(step, left, right, is_complex, got, spellings, mm, pol, sid)

                if step.get("in_thread"):
                    import threading

                    failure: List[BaseException] = []

                    def guarded() -> None:
                        try:
                            evaluate()
                        except BaseException as exc:  # noqa: BLE001
                            failure.append(exc)

                    worker = threading.Thread(target=guarded, name="sim-worker")
                    worker.start()
                    worker.join()
                    self.bump("probe:evaluated_in_worker_thread")
                    if failure:
                        raise failure[0]
                else:
                    evaluate()
                xname, _opf, fname = OPS[step.get("extra_op", 0) % 6]
                if is_complex:
                    xname, _opf, fname = OPS[4 + step.get("extra_op", 0) % 2]
                ties = env.counters.get("seam:sort.consults_with_tie", 0)
                self.bump("seam:sort.consults", env.counters.get("seam:sort.consults", 0))
                self.bump("seam:sort.consults_with_tie", ties)
            self.bump("decided")
            if same_degree_diff:
                self.sigs.add(f"{core.H(core.jdump(step))}|{g}|{r}|{pol}")
                self.bump("probe:operands_differ_in_2+_same_degree_monomials")
            # 1. trichotomy + agreement with the documented order
            expect = {"lt": want < 0, "gt": want > 0, "le": want <= 0, "ge": want >= 0, "eq": eq_want, "ne": ~eq_want}
            for name, arr in got.items():
                if arr is None:
                    continue
                arr_np = numpy.asarray(arr)
                if arr_np.shape != tuple(shape) or arr_np.dtype != bool:
                    self.violate("comparison-type", name, sid, f"shape {arr_np.shape} dtype {arr_np.dtype}, expected bool{tuple(shape)}", {})
                    continue
                if not numpy.array_equal(arr_np, expect[name]):
                    clause = "documented-order" if name in ("lt", "gt", "le", "ge") else "equality-iff-identical"
                    self.violate(clause, name, sid, f"graded={g} reverse={r} policy={pol}: got {arr_np.tolist()} expected {expect[name].tolist()}", {"graded": g, "reverse": r} if pol == "stable" else {"policy": pol})
            if not is_complex and all(got.get(k) is not None for k in ("lt", "eq", "gt")):
                tri = numpy.asarray(got["lt"]).astype(int) + numpy.asarray(got["eq"]).astype(int) + numpy.asarray(got["gt"]).astype(int)
                if tri.shape == tuple(shape) and not numpy.all(tri == 1):
                    self.violate("trichotomy", "lt/eq/gt", sid, f"graded={g} reverse={r} policy={pol}: lt+eq+gt = {tri.tolist()}", {})
            # 2. spellings
            base = got.get(xname)
            for label, val in spellings.items():
                if isinstance(val, Exception):
                    self.violate("spelling-agreement", fname, sid, f"{label}.{fname} raised {type(val).__name__}: {val}", {"spelling": label})
                elif base is not None and not (_shape(val) == _shape(base) and numpy.array_equal(numpy.asarray(val), numpy.asarray(base))):
                    self.violate("spelling-agreement", fname, sid, f"{label}.{fname} differs from the operator", {"spelling": label})
            # 3. maximum / minimum
            for fn, val in mm.items():
                if isinstance(val, Exception):
                    self.violate("maxmin-selects", fn, sid, f"raised {type(val).__name__}: {val}", {})
                    continue
                try:
                    _, el_v = model.elements(val, union_names(val, *polys)) if isinstance(val, numpoly.ndpoly) else (None, None)
                except core.Violation as exc:
                    self.violate(exc.clause, fn, sid, exc.detail, {})
                    continue
                if el_v is None or tuple(val.shape) != tuple(shape):
                    self.violate("maxmin-selects", fn, sid, f"returned {type(val).__name__} of shape {_shape(val)}", {})
                    continue
                vnames = union_names(val, *polys)
                ll = as_elements(ref_left, vnames, shape)
                rr = as_elements(ref_right, vnames, shape)
                for i, (x, y, v) in enumerate(zip(ll, rr, el_v)):
                    c = model.compare_elements(x, y, g, r)
                    pick = (x if c >= 0 else y) if fn == "maximum" else (x if c <= 0 else y)
                    if not self._el_equal(pick, v):
                        self.violate("maxmin-selects", fn, sid, f"graded={g} reverse={r} policy={pol}: element {i} is {v}, expected {pick}", {"graded": g, "reverse": r} if pol == "stable" else {"policy": pol})
                        break
            verdicts[(g, r, pol)] = [None if v is None else numpy.asarray(v).tolist() for v in got.values()]
        # 4. same verdict under every policy
        for g in (True, False):
            for r in (False, True):
                vs = [verdicts.get((g, r, pol)) for pol in self.plan["policies"]]
                if any(v != vs[0] for v in vs[1:]):
                    self.violate("tie-order-independent", "comparison", step["id"], f"graded={g} reverse={r}: verdicts differ between tie policies {self.plan['policies']}", {})
        self.events.append(["pair", [[k, v] for k, v in sorted((str(k), v) for k, v in verdicts.items())]])

    @staticmethod
    def _el_equal(x: Dict[tuple, Any], y: Dict[tuple, Any]) -> bool:
        return set(x) == set(y) and all(x[k] == y[k] for k in x)

    @staticmethod
    def _nontrivial(el_l: list, el_r: list) -> bool:
        for x, y in zip(el_l, el_r):
            diff = [k for k in set(x) | set(y) if x.get(k, 0) != y.get(k, 0)]
            degs = [sum(k) for k in diff]
            if len(degs) != len(set(degs)):
                return True
        return False

    # -- triple ------------------------------------------------------------
    def do_triple(self, step: dict) -> None:
        try:
            polys = [model.build_poly(lit) for lit in step["polys"]]
        except core.Undecided as exc:
            self.bump(f"undecided:{exc.reason}")
            return
        names = union_names(*polys)
        els = [as_elements(p, names, ())[0] for p in polys]
        sid = step["id"]
        out = []
        for g, r, pol in self.settings():
            with seams.Env(core.H(self.rs, pol, g, r), sort=pol, fill="a5") as env, reach_options(step.get("reach", "direct"), g, r, step.get("other_options")):
                env.begin_step(sid)
                lt = [[None] * 3 for _ in range(3)]
                try:
                    for i in range(3):
                        for j in range(3):
                            lt[i][j] = bool(polys[i] < polys[j])
                except Exception as exc:  # noqa: BLE001
                    self.violate("comparison-raises", "lt", sid, f"{type(exc).__name__}: {exc}", {"policy": pol})
                    continue
                self.bump("seam:sort.consults", env.counters.get("seam:sort.consults", 0))
                self.bump("seam:sort.consults_with_tie", env.counters.get("seam:sort.consults_with_tie", 0))
            self.bump("decided")
            self.sigs.add(f"{core.H(core.jdump(step))}|{g}|{r}|{pol}")
            for i in range(3):
                for j in range(3):
                    want = model.compare_elements(els[i], els[j], g, r) < 0
                    if lt[i][j] != want:
                        self.violate("documented-order", "lt", sid, f"graded={g} reverse={r} policy={pol}: p{i}<p{j} is {lt[i][j]}, expected {want}", {"graded": g, "reverse": r} if pol == "stable" else {"policy": pol})
                    if i != j and lt[i][j] and lt[j][i]:
                        self.violate("antisymmetry", "lt", sid, f"graded={g} reverse={r} policy={pol}: p{i}<p{j} and p{j}<p{i}", {})
                    for k in range(3):
                        if lt[i][j] and lt[j][k] and not lt[i][k]:
                            self.violate("transitivity", "lt", sid, f"graded={g} reverse={r} policy={pol}: p{i}<p{j}<p{k} but not p{i}<p{k}", {})
            out.append([g, r, pol, lt])
        self.events.append(["triple", out])

    def run(self) -> None:
        for step in self.plan["steps"]:
            self.bump(f"op:{step['k']}")
            if step["k"] == "pair":
                self.do_pair(step)
            else:
                self.do_triple(step)


def execute(plan: dict) -> dict:
    import warnings

    import numpoly

    runner = Runner(plan)
    defaults = numpoly.get_options(defaults=True)
    numpoly.set_options(**defaults)
    with warnings.catch_warnings():
        warnings.simplefilter("ignore")
        with numpy.errstate(all="ignore"):
            try:
                prelude.run_prelude(plan.get("prelude"), runner.stats)
                runner.run()
            finally:
                numpoly.set_options(**defaults)
    return {"violations": runner.violations, "events": runner.events, "stats": runner.stats, "sigs": sorted(runner.sigs)}


def simplify(plan: dict):
    if plan.get("prelude"):
        yield dict(plan, prelude=None)
        for i in range(len(plan["prelude"])):
            yield dict(plan, prelude=plan["prelude"][:i] + plan["prelude"][i + 1:] or None)
    if len(plan.get("policies", [])) > 1:
        for pol in plan["policies"]:
            yield dict(plan, policies=[pol])
    for i, step in enumerate(plan["steps"]):
        if step.get("other_options"):
            yield dict(plan, steps=[dict(step, other_options={})])
        if step.get("reach") != "direct":
            yield dict(plan, steps=[dict(step, reach="direct")])
        if step["k"] == "pair":
            if step.get("rewrite"):
                yield dict(plan, steps=[{k: v for k, v in step.items() if k != "rewrite"}])
            for key in ("abort_first", "interleave", "in_thread", "same_object", "scribble"):
                if step.get(key) is not None and step.get(key) is not False:
                    yield dict(plan, steps=[{k: v for k, v in step.items() if k != key}])
            for key in ("a", "b"):
                v = step[key]
                if (step.get("rewrite") or {}).get("which") == key:
                    continue
                if isinstance(v, dict) and "poly" in v:
                    for lit in model.lit_shrinks(v["poly"]):
                        if key == "a" and isinstance(step["b"], dict) and "poly" not in step["b"] and lit["shape"] != v["poly"]["shape"]:
                            continue
                        yield dict(plan, steps=[dict(step, **{key: {"poly": lit}})])
        else:
            for j, lit in enumerate(step["polys"]):
                for small in model.lit_shrinks(lit):
                    yield dict(plan, steps=[dict(step, polys=step["polys"][:j] + [small] + step["polys"][j + 1:])])
