"""C12 — coefficient values survive every dtype; no uninitialised memory is returned.

The statement is literally about allocator nondeterminism: HeapSeam makes the
bytes of every fresh ndpoly / numpy.empty buffer an input.  Each step runs
under several fills (zero, 0xA5, 0xFF, seeded bytes, stale bytes of earlier
numpoly buffers) in red-zone mode; results must (a) be byte-identical across
fills and (b) equal numpy's casts / promotion computed on plain arrays.
"""
from __future__ import annotations

import json
from typing import Any, Dict, List, Optional, Tuple

import numpy

from .. import prelude, core, model, seams
from ..runner import NUMPOLY_DIR

ID = "C12"
LEVEL = "exploration"
CHUNK = 10
CRASH_IS_UNDECIDED = True  # the code under test may write out of bounds: a dead child is its own run's problem
DTYPES = ["bool", "int8", "int16", "int32", "int64", "uint8", "uint16", "uint32", "uint64", "float16", "float32", "float64", "complex64", "complex128"]
FILLS = ["zero", "a5", "ff", "prng", "stale"]
RULE = (
    "all 14 numeric dtypes and all ordered pairs x {polynomial(x, dtype=), aspolynomial(x, dtype=), polynomial_from_attributes("
    "dtype=, incl. mixed-dtype coefficient lists), raw structured arrays with mixed field types, polynomial(dict), variable/symbols(dtype=), astype, +, -, *, **, indexing, "
    "reshape/transpose/concatenate/where, full/zeros/ones(_like), diff/ediff1d, set_dimensions, results with zero surviving terms "
    "(p-p, p*0, where(False), all terms dropped)} over small integer-valued data; every step runs under 3 heap fills (quick) / all "
    "5 (thorough) with red zones. Distinct non-trivial = distinct (operation, dtype pair, operand shape/term structure, fill) "
    "where the operation allocates at least one buffer through the heap seam."
)
COMPONENTS = {
    "real": ["numpoly constructors, casts, arithmetic, shape functions", "compiled cfunctions (cvalues/cfrom_attributes/cmultiply)", "numpy casts/promotion as the oracle on plain arrays"],
    "stand_ins": ["bytes of freshly allocated ndpoly buffers (ndpoly.__new__ wrapper, red zones) and numpy.empty/empty_like results"],
}
ASSUMPTIONS = [
    "numpoly.ndpoly(...) called directly is the documented raw allocator and is exempt",
    "user-supplied where= masks without out= are documented as uninitialised and not generated",
    "buffers numpy allocates internally cannot be poisoned from Python",
]


def setup() -> None:
    pass


def budget(tier: str) -> int:
    return 3000 if tier == "quick" else 200000


def wall_cap(tier: str) -> int:
    return 900 if tier == "quick" else 10000


# ---------------------------------------------------------------------------


# index expressions beyond ints and single slices: (minimum number of axes, index).  numpy moves the broadcast axes of
# non-adjacent advanced indices to the front
FANCY = {
    "0,:,[0,1]": (3, (0, slice(None), [0, 1])),
    "[1,0],:,[1,0]": (3, ([1, 0], slice(None), [1, 0])),
    "[0,1],0": (2, ([0, 1], 0)),
    ":,[1,0,1]": (2, (slice(None), [1, 0, 1])),
    "...,[1,0]": (2, (Ellipsis, [1, 0])),
    "[[0],[1]],:,[0,1]": (3, ([[0], [1]], slice(None), [0, 1])),
    "None,1,::-1": (2, (None, 1, slice(None, None, -1))),
    "[0,1],[1,0]": (2, ([0, 1], [1, 0])),
    "1,...,0": (2, (1, Ellipsis, 0)),
    ":,0,[1,1,0]": (3, (slice(None), 0, [1, 1, 0])),
    "[1],:,[0]": (3, ([1], slice(None), [0])),
}


def _data(ch: core.Chooser, dtype: str, size: int, allow_neg: bool = True) -> list:
    kind = numpy.dtype(dtype).kind
    if kind == "b":
        return [ch.choice([True, False, True]) for _ in range(size)]
    if kind == "c" and allow_neg:
        # purely imaginary and mixed values: a cast to bool is a non-zero test of the whole number, to float it drops the imaginary part
        return [ch.choice([-2, -1, 0, 1, 1, 2, [0, 1], [0, -2], [1, 1], [-1, 2]]) for _ in range(size)]
    if kind == "u" or not allow_neg:
        return [ch.choice([0, 1, 1, 2, 3]) for _ in range(size)]
    return [ch.choice([-3, -2, -1, 0, 1, 1, 2, 3]) for _ in range(size)]


def _num(v: Any) -> Any:
    return complex(*v) if isinstance(v, list) else v


def _poly(ch: core.Chooser, dtype: str, names: Optional[List[str]] = None, shape: Optional[tuple] = None, max_terms: int = 3) -> dict:
    names = names or model.gen_names(ch.sub("n"), 1, 2, pool=["q0", "q1", "q2"])
    shape = tuple(shape) if shape is not None else ch.choice([(), (2,), (3,), (2, 2), (2, 3), (2, 1, 2)])
    size = int(numpy.prod(shape, dtype=int))
    nterms = ch.between(1, max_terms)
    exps: List[List[int]] = []
    tries = 0
    while len(exps) < nterms and tries < 30:
        tries += 1
        e = [ch.choice([0, 0, 1, 1, 2]) for _ in names]
        if e not in exps:
            exps.append(e)
    cs = ch.sub("special-exponents")
    if cs.chance(0.08):
        # exponents whose storage key is a character with a special class (digit-like superscripts, whitespace, the
        # first non-ASCII and non-latin-1 ones): coefficient values survive whatever the key looks like
        special = [74, 101, 119, 120, 126, 68, 69, 196, 197]
        for e in exps:
            if sum(e) and cs.chance(0.7):
                new = [cs.choice(special) if v else 0 for v in e] if cs.chance(0.6) else [cs.choice(special) for _ in e]
                if new not in exps:
                    e[:] = new
    return {"names": names, "shape": list(shape), "dtype": dtype, "exponents": exps,
            "coefficients": [_data(ch.sub("c", i), dtype, size) for i in range(len(exps))]}


def generate(rs: int, tier: str, index: int) -> dict:
    ch = core.Chooser(rs, "plan")
    d1 = DTYPES[index % len(DTYPES)]
    d2 = DTYPES[(index // len(DTYPES)) % len(DTYPES)]
    kind = ch.weighted([(4, "ctor"), (5, "arith"), (3, "shape"), (2, "vanish"), (1, "create")])
    CASTS = ["astype", "polynomial_dtype", "aspolynomial_dtype", "from_attributes_dtype", "aspolynomial_poly_dtype"]
    cast_cell = index < len(DTYPES) ** 2 * len(CASTS)  # the complete (source dtype, target dtype, cast route) matrix comes first
    if cast_cell:
        kind = "ctor"
    if kind == "ctor" and not cast_cell and ch.sub("swapped").chance(0.15):
        # a requested dtype in the other byte order: same name ("float64"), not the same dtype
        d2 = ch.sub("swapped").choice([">f8", ">i8", ">u4", ">c16", ">f4", ">i2", ">u8"])
    step: Dict[str, Any] = {"id": 0, "k": kind, "d1": d1, "d2": d2}
    if kind == "ctor":
        how = ch.choice(["polynomial_dtype", "aspolynomial_dtype", "from_attributes_dtype", "from_attributes_mixed", "dict", "variable", "symbols", "astype", "from_data", "aspolynomial_poly_dtype", "polynomial_list", "aspolynomial_poly_names_dtype", "empty_dict", "raw_mixed_fields", "dict_mixed", "lowest_ints"])
        step["value"] = ch.sub("v").below(3)
        if cast_cell:
            how = CASTS[(index // len(DTYPES) ** 2) % len(CASTS)]
        elif d2.startswith(">"):
            how = ch.choice(CASTS)
        step["how"] = how
        shape = ch.choice([(), (3,), (2, 2), (2, 3)])
        size = int(numpy.prod(shape, dtype=int))
        step["x"] = {"shape": list(shape), "dtype": d1, "flat": _data(ch.sub("x"), d1, size, allow_neg=numpy.dtype(d2).kind not in "ub")}
        if len(shape) >= 2 and ch.chance(0.4):
            step["x"]["order"] = "F"
        step["p"] = _poly(ch.sub("p"), d1)
        if numpy.dtype(d2).kind in "ub":  # keep casts value-preserving and order independent
            step["p"]["coefficients"] = [[v if isinstance(v, bool) else ([abs(v[0]), abs(v[1])] if isinstance(v, list) else abs(v)) for v in col] for col in step["p"]["coefficients"]]
        step["mixed"] = [ch.choice(DTYPES) for _ in range(3)]
        if how == "dict_mixed" and ch.sub("wide").chance(0.6):
            # 64-bit integers next to a type that promotes them to float64, and a 64-bit integer result requested
            cw = ch.sub("wide")
            step["d2"] = d2 = cw.choice(["int64", "int64", "uint64"])
            step["mixed"] = cw.shuffle([cw.choice(["int64", "uint64"]), cw.choice(["float64", "float32", "float64"]), cw.choice(["int64", "uint64", "float64", "int32"])])
    elif kind == "arith":
        step["op"] = ch.choice(["add", "sub", "mul", "mul", "pow", "mul_scalar", "radd_array", "add_npscalar", "add_npscalar", "add_pyscalar"])
        step["value"] = ch.choice([0, 1, 2, 100])
        step["primer_dtype"] = ch.choice(DTYPES)
        step["primer"] = ch.chance(0.6)
        a = _poly(ch.sub("a"), d1)
        rel = ch.below(3)
        bnames = a["names"] if rel == 0 else model.gen_names(ch.sub("bn"), 1, 2, pool=["q0", "q1", "q2"])
        bshape = tuple(a["shape"]) if ch.chance(0.6) else () if ch.chance(0.4) else model.broadcast_partner_shape(ch.sub("bshape"), tuple(a["shape"]))
        if len(a["shape"]) >= 2 and ch.sub("inner").chance(0.3):
            # broadcasting along an axis that is not the leading one: (2,1) against (2,3), (2,1,2) against (2,3,2)
            j = ch.sub("inner").between(1, len(a["shape"]) - 1)
            bshape = tuple(1 if i == j else (n if n > 1 else 3) for i, n in enumerate(a["shape"]))
            if bshape == tuple(a["shape"]):
                bshape = tuple(n if i != j else 3 for i, n in enumerate(a["shape"]))
        step["a"], step["b"] = a, _poly(ch.sub("b"), d2, names=bnames, shape=bshape)
        step["e"] = ch.choice([0, 1, 2, 3])
        step["scalar"] = ch.choice([0, 1, 2])
        if ch.sub("alias").chance(0.1):
            step["alias"] = True
        cn = ch.sub("neighbours")
        if numpy.dtype(d1).kind == "f" and cn.chance(0.25):
            # the second operand shares the terms of the first and holds the neighbouring floating-point numbers: the
            # differences are tiny, exactly representable, and not zero
            step["op"] = cn.choice(["sub", "sub", "add"])
            step["d2"] = d2 = d1
            nb = json.loads(json.dumps(a))
            nb["coefficients"] = [[float(numpy.nextafter(numpy.dtype(d1).type(v), numpy.dtype(d1).type(numpy.inf if cn.chance(0.5) else -numpy.inf))) if cn.chance(0.7) else v for v in col] for col in a["coefficients"]]
            step["b"] = nb
    elif kind == "shape":
        step["fn"] = ch.choice(["getitem", "reshape", "transpose", "concatenate", "where", "diff", "ediff1d", "getitem_mask", "stack", "repeat", "tile", "expand_dims", "sum", "cumsum", "getitem_fancy", "getitem_fancy", "hstack", "vstack", "dstack"])
        shape = ch.choice([(2,), (3,), (2, 2), (2, 3)])
        if step["fn"] == "getitem_fancy":
            shape = ch.choice([(2, 3, 2), (2, 2, 3), (3, 2, 2), (2, 3)])
            step["index"] = ch.choice(sorted(k for k, v in FANCY.items() if v[0] <= len(shape)))
        step["a"] = _poly(ch.sub("a"), d1, shape=shape)
        step["b"] = _poly(ch.sub("b"), d2, shape=shape, names=step["a"]["names"] if ch.chance(0.5) else None)
        size = int(numpy.prod(shape, dtype=int))
        step["mask"] = [ch.chance(0.5) for _ in range(size)]
        step["idx"] = ch.below(shape[0])
    elif kind == "vanish":
        step["fn"] = ch.choice(["p_minus_p", "p_times_0", "where_false", "set_dimensions_all", "mask_none", "p_times_zero_poly", "sub_cancel_some"])
        step["a"] = _poly(ch.sub("a"), d1, names=["q0", "q1"], shape=ch.choice([(), (2,), (2, 2)]))
        for e in step["a"]["exponents"]:
            if e[1] == 0:
                e[1] = 1
        uniq: List[List[int]] = []
        cols = []
        for e, c in zip(step["a"]["exponents"], step["a"]["coefficients"]):
            if e not in uniq:
                uniq.append(e)
                cols.append(c)
        step["a"]["exponents"], step["a"]["coefficients"] = uniq, cols
    else:
        step["fn"] = ch.choice(["full", "full_like", "zeros_like", "ones_like", "zeros", "ones"])
        step["a"] = _poly(ch.sub("a"), d1)
        step["v"] = _poly(ch.sub("v"), d2, shape=())
        step["shape"] = list(ch.choice([(), (2,), (2, 2)]))
    fills = FILLS if tier == "thorough" else ["zero"] + ch.sample(FILLS[1:], 2)
    if not cast_cell and ch.sub("abort").chance(0.12):
        step["abort_first"] = ch.sub("abort").below(100000)
    return {"property": ID, "run_seed": rs, "tier": tier, "prelude": prelude.gen_prelude(core.Chooser(rs, "prelude")), "fills": fills, "steps": [step]}


# ---------------------------------------------------------------------------
# oracle helpers (plain numpy only)


def _arr(lit: dict) -> numpy.ndarray:
    arr = numpy.array([_num(v) for v in lit["flat"]], dtype=lit["dtype"]).reshape(lit["shape"])
    if lit.get("order") == "F" and arr.ndim >= 2:
        arr = numpy.asfortranarray(arr)  # column-major plain data (a transpose, a Fortran library's output)
    return arr


def _cols(lit: dict) -> List[numpy.ndarray]:
    return [numpy.array([_num(v) for v in c], dtype=lit["dtype"]).reshape(lit["shape"]) for c in lit["coefficients"]]


def _model(lit: dict) -> Dict[frozenset, numpy.ndarray]:
    out: Dict[frozenset, numpy.ndarray] = {}
    for e, c in zip(lit["exponents"], _cols(lit)):
        key = frozenset((n, k) for n, k in zip(lit["names"], e) if k)
        out[key] = c
    return out


def _kadd(k1: frozenset, k2: frozenset) -> frozenset:
    d = dict(k1)
    for n, p in k2:
        d[n] = d.get(n, 0) + p
    return frozenset(d.items())


def _m_mul(a: dict, b: dict, rt: numpy.dtype, shape: tuple) -> dict:
    out: Dict[frozenset, numpy.ndarray] = {}
    for k1, c1 in a.items():
        for k2, c2 in b.items():
            key = _kadd(k1, k2)
            prod = numpy.multiply(c1, c2, dtype=rt)
            if key in out:
                out[key] = numpy.add(out[key], prod, dtype=rt)
            else:
                out[key] = numpy.broadcast_to(prod, shape).astype(rt)
    return out


def _m_addsub(a: dict, b: dict, ufunc: Any, da: numpy.dtype, db: numpy.dtype, shape: tuple) -> dict:
    out = {}
    sa = next(iter(a.values())).shape if a else ()
    sb = next(iter(b.values())).shape if b else ()
    for key in set(a) | set(b):
        x = a.get(key, numpy.zeros(sa, dtype=da))
        y = b.get(key, numpy.zeros(sb, dtype=db))
        out[key] = numpy.broadcast_to(ufunc(x, y), shape)
    return out


def _strip(m: dict) -> dict:
    return {k: numpy.asarray(v) for k, v in m.items() if numpy.any(numpy.asarray(v) != 0)}


class Expect:
    """What the result must be: dtype, shape, canonical coefficients — or an exception."""

    def __init__(self, dtype: Any = None, shape: Any = None, canon: Optional[dict] = None, raises: bool = False, names_exact: Optional[tuple] = None, may_raise: bool = False):
        self.dtype, self.shape, self.canon, self.raises = dtype, shape, canon, raises
        self.may_raise = may_raise


class Runner:
    def __init__(self, plan: dict):
        self.plan = plan
        self.rs = plan["run_seed"]
        self.violations: List[dict] = []
        self.events: List[Any] = []
        self.stats: Dict[str, int] = {}
        self.sigs: set = set()

    def bump(self, key: str, n: int = 1) -> None:
        self.stats[key] = self.stats.get(key, 0) + n

    def violate(self, clause: str, op: str, sid: Any, detail: str, where: Optional[dict] = None) -> None:
        rec = core.Violation(clause, op, detail[:500], where or {}, sid).record()
        if not any(core.vclass(r) == core.vclass(rec) for r in self.violations):
            self.violations.append(rec)
        self.events.append(["violation", sid, clause, op])

    # -- building operands through the code under test ------------------------
    @staticmethod
    def build(lit: dict) -> Any:
        import numpoly

        return numpoly.polynomial_from_attributes(numpy.array(lit["exponents"], dtype=int).reshape(len(lit["exponents"]), len(lit["names"])),
                                                  _cols(lit), tuple(lit["names"]), retain_coefficients=True, retain_names=True)

    # -- one step: returns (thunk, Expect, opname, where) -----------------------
    def prepare(self, step: dict) -> Tuple[Any, Expect, str, dict]:
        import numpoly

        k = step["k"]
        d1, d2 = numpy.dtype(step["d1"]), numpy.dtype(step["d2"])
        where = {"d1": step["d1"], "d2": step["d2"]}
        if k == "ctor":
            how = step["how"]
            x = _arr(step["x"])
            p = step["p"]
            const = lambda arr: _strip({frozenset(): arr})
            if how == "polynomial_dtype":
                return (lambda: numpoly.polynomial(x, dtype=d2)), Expect(d2, x.shape, const(x.astype(d2))), how, where
            if how == "aspolynomial_dtype":
                return (lambda: numpoly.aspolynomial(x, dtype=d2)), Expect(d2, x.shape, const(x.astype(d2))), how, where
            if how == "from_data":
                return (lambda: numpoly.polynomial(x)), Expect(d1, x.shape, const(x)), how, {"d1": step["d1"]}
            if how == "polynomial_list":
                try:
                    ref = Expect(d2, x.shape, const(numpy.array(x.tolist(), dtype=d2)))
                except (TypeError, OverflowError):
                    ref = Expect(raises=True)
                return (lambda: numpoly.polynomial(x.tolist(), dtype=d2)), ref, how, where
            if how == "from_attributes_dtype":
                exps = numpy.array(p["exponents"], dtype=int)
                return (lambda: numpoly.polynomial_from_attributes(exps, _cols(p), tuple(p["names"]), dtype=d2)), \
                    Expect(d2, tuple(p["shape"]), _strip({key: v.astype(d2) for key, v in _model(p).items()})), how, where
            if how == "from_attributes_mixed":
                exps = numpy.array(p["exponents"], dtype=int)
                mixed = [numpy.dtype(m) for m in step["mixed"]]
                kinds_unsigned = any(m.kind in "ub" for m in mixed)
                cols = [numpy.abs(c).astype(mixed[i % 3]) if kinds_unsigned and c.dtype.kind not in "b" else c.astype(mixed[i % 3]) for i, c in enumerate(_cols(p))]
                # without a dtype argument the result has numpy's common type of all coefficients
                cols = [numpy.array(c) for c in cols]
                if step.get("value", 0) % 3 == 1 and len(cols) >= 2:
                    # the coefficient of the widest type is zero everywhere: the default type is still the common type
                    # of the coefficients as given, whether or not that term survives
                    widest = max(range(len(cols)), key=lambda i: (numpy.result_type(cols[i].dtype, *[c.dtype for c in cols]) == cols[i].dtype, cols[i].dtype.itemsize))
                    cols[widest] = numpy.zeros_like(cols[widest])
                explicit = cols[0].dtype if step["mixed"][0] < step["mixed"][1] else None
                expect_dtype = explicit if explicit is not None else numpy.result_type(*cols)
                if numpy.dtype(expect_dtype).kind in "ub":
                    cols = [numpy.abs(c) if c.dtype.kind not in "bc" else c for c in cols]
                keys = [frozenset((n, kk) for n, kk in zip(p["names"], e) if kk) for e in p["exponents"]]
                return (lambda: numpoly.polynomial_from_attributes(exps, cols, tuple(p["names"]), dtype=explicit)), \
                    Expect(expect_dtype, tuple(p["shape"]), _strip({key: c.astype(expect_dtype) for key, c in zip(keys, cols)})), how, {"mixed": True}
            if how == "raw_mixed_fields":
                # data arriving as a raw structured array (the documented core of a polynomial) whose fields do not all
                # have one type, as records assembled column by column do: the common type, every value kept
                mixed = [numpy.dtype(m) for m in step["mixed"]]
                kinds_unsigned = any(m.kind in "ub" for m in mixed)
                cols = [numpy.array(numpy.abs(c).astype(mixed[i % 3]) if kinds_unsigned and c.dtype.kind not in "b" else c.astype(mixed[i % 3])) for i, c in enumerate(_cols(p))]
                expect_dtype = numpy.result_type(*cols)
                if numpy.dtype(expect_dtype).kind in "ub":
                    cols = [numpy.abs(c) if c.dtype.kind not in "bc" else c for c in cols]
                keys = [frozenset((n, kk) for n, kk in zip(p["names"], e) if kk) for e in p["exponents"]]
                shape = tuple(p["shape"])

                def thunk_raw():
                    q = self.build(p)
                    raw = numpy.zeros(shape, dtype=[(key, c.dtype) for key, c in zip(q.keys, cols)])
                    for key, c in zip(q.keys, cols):
                        raw[key] = c
                    route = step.get("value", 0) % 3
                    if route == 0:
                        return numpoly.polynomial(raw, names=q.names)
                    if route == 1:
                        return numpoly.aspolynomial(raw, names=q.names)
                    return numpoly.reshape(numpoly.polynomial(raw, names=q.names), shape)

                return thunk_raw, Expect(expect_dtype, shape, _strip({key: c.astype(expect_dtype) for key, c in zip(keys, cols)})), how, {"mixed": True}
            if how == "lowest_ints":
                # a term whose only non-zero coefficients are the most negative value of a signed type (the one number
                # whose magnitude the type cannot hold): it is a value like any other
                dt = d1 if d1.kind == "i" else numpy.dtype("int64")
                shape = tuple(p["shape"])
                col = numpy.full(shape, numpy.iinfo(dt).min, dtype=dt)
                if col.size > 1:
                    col.flat[0] = 0
                const = numpy.ones(shape, dtype=dt)
                route = step.get("value", 0) % 3

                def thunk_low():
                    if route == 0:
                        return numpoly.polynomial_from_attributes([[0], [1]], [const, col], ("q0",))
                    if route == 1:
                        return numpoly.polynomial({(0,): const, (1,): col}, names=("q0",))
                    return numpoly.clean_attributes(numpoly.polynomial_from_attributes([[0], [1]], [const, col], ("q0",), retain_coefficients=True)).astype(dt)

                return thunk_low, Expect(dt, shape, _strip({frozenset(): const, frozenset({("q0", 1)}): col})), how, {"d1": str(dt)}
            if how == "dict_mixed":
                # a dictionary whose coefficient arrays differ in type, with a requested dtype: each value is cast on its
                # own (an int64 beyond 2**53 must not travel through a common float64)
                mixed = [numpy.dtype(m) for m in step["mixed"]]
                narrow = d2.kind in "ub" or any(m.kind in "ub" for m in mixed)
                cols = [numpy.array(numpy.abs(c).astype(mixed[i % 3]) if narrow and c.dtype.kind != "b" else c.astype(mixed[i % 3])) for i, c in enumerate(_cols(p))]
                if d2.kind in "iu" and d2.itemsize == 8:
                    for c in cols:
                        if c.dtype.kind in "iu" and c.dtype.itemsize == 8 and c.size:
                            c.flat[0] = 2 ** 53 + 1 + step.get("value", 0)
                dct = {tuple(e): c for e, c in zip(p["exponents"], cols)}
                keys = [frozenset((n, kk) for n, kk in zip(p["names"], e) if kk) for e in p["exponents"]]
                return (lambda: numpoly.polynomial(dct, names=tuple(p["names"]), dtype=d2)), \
                    Expect(d2, tuple(p["shape"]), _strip({key: c.astype(d2) for key, c in zip(keys, cols)})), how, {"mixed": True, "d2": step["d2"]}
            if how == "dict":
                cols = _cols(p)
                dct = {tuple(e): c for e, c in zip(p["exponents"], cols)}
                return (lambda: numpoly.polynomial(dct, names=tuple(p["names"]), dtype=d2)), \
                    Expect(d2, tuple(p["shape"]), _strip({key: v.astype(d2) for key, v in _model(p).items()})), how, where
            if how == "empty_dict":
                # no terms at all: refusing is fine; a value that comes back is the zero polynomial of the requested type,
                # whatever fresh memory holds
                return (lambda: numpoly.polynomial({}, dtype=d2)), Expect(d2, (), {}, may_raise=True), how, {"d2": step["d2"]}
            if how in ("variable", "symbols") and step.get("value", 0) % 2:
                # history: the indeterminates were asked for before and the caller wrote into what it got
                def thunk_again():
                    first = numpoly.variable(2, dtype=d2) if how == "variable" else numpoly.symbols("q1", dtype=d2)
                    raw = first.values
                    for key in raw.dtype.names or ():
                        raw[key][...] = 1
                    return numpoly.variable(2, dtype=d2) if how == "variable" else numpoly.symbols("q1", dtype=d2)

                if how == "variable":
                    return thunk_again, Expect(d2, (2,), {frozenset({("q0", 1)}): numpy.array([1, 0]).astype(d2), frozenset({("q1", 1)}): numpy.array([0, 1]).astype(d2)}), how, {"d2": step["d2"]}
                return thunk_again, Expect(d2, (), {frozenset({("q1", 1)}): numpy.array(1).astype(d2)}), how, {"d2": step["d2"]}
            if how == "variable":
                return (lambda: numpoly.variable(2, dtype=d2)), Expect(d2, (2,), {frozenset({("q0", 1)}): numpy.array([1, 0]).astype(d2), frozenset({("q1", 1)}): numpy.array([0, 1]).astype(d2)}), how, {"d2": step["d2"]}
            if how == "symbols":
                return (lambda: numpoly.symbols("q1", dtype=d2)), Expect(d2, (), {frozenset({("q1", 1)}): numpy.array(1).astype(d2)}), how, {"d2": step["d2"]}
            if how == "astype":
                return (lambda: self.build(p).astype(d2)), Expect(d2, tuple(p["shape"]), _strip({key: v.astype(d2) for key, v in _model(p).items()})), how, where
            if how == "aspolynomial_poly_dtype":
                return (lambda: numpoly.aspolynomial(self.build(p), dtype=d2)), Expect(d2, tuple(p["shape"]), _strip({key: v.astype(d2) for key, v in _model(p).items()})), how, where
            if how == "aspolynomial_poly_names_dtype":
                # the names it already has (spelled as tuple, list or as a polynomial carrying them) together with a dtype request
                def thunk_nd():
                    q = self.build(p)
                    spelled = [tuple(q.names), list(q.names), q.indeterminants][step.get("value", 0) % 3]
                    return numpoly.aspolynomial(q, names=spelled, dtype=d2)

                return thunk_nd, Expect(d2, tuple(p["shape"]), _strip({key: v.astype(d2) for key, v in _model(p).items()})), how, where
            raise core.HarnessError(how)
        if k == "arith":
            op = step["op"]
            a, b = step["a"], step["b"]
            if step.get("alias") and op in ("add", "sub", "mul"):
                # the very same object on both sides
                ma = _model(a)
                shape = tuple(a["shape"])
                if op == "mul":
                    exp = Expect(d1, shape, _strip(_m_mul(ma, ma, d1, shape)))
                else:
                    uf = numpy.add if op == "add" else numpy.subtract
                    try:
                        exp = Expect(uf(numpy.zeros((), d1), numpy.zeros((), d1)).dtype, shape, _strip(_m_addsub(ma, ma, uf, d1, d1, shape)))
                    except TypeError:
                        exp = Expect(raises=True)

                def thunk_alias():
                    x = self.build(a)
                    return x + x if op == "add" else x - x if op == "sub" else x * x

                return thunk_alias, exp, op, {"d1": step["d1"]}
            ma, mb = _model(a), _model(b)
            shape = numpy.broadcast_shapes(tuple(a["shape"]), tuple(b["shape"]))
            if op in ("add", "sub"):
                uf = numpy.add if op == "add" else numpy.subtract
                try:
                    rt = uf(numpy.zeros((), d1), numpy.zeros((), d2)).dtype
                    exp = Expect(rt, shape, _strip(_m_addsub(ma, mb, uf, d1, d2, shape)))
                except TypeError:
                    exp = Expect(raises=True)
                f = (lambda: self.build(a) + self.build(b)) if op == "add" else (lambda: self.build(a) - self.build(b))
                return f, exp, op, where
            if op == "mul":
                rt = numpy.result_type(d1, d2)
                return (lambda: self.build(a) * self.build(b)), Expect(rt, shape, _strip(_m_mul(ma, mb, rt, shape))), op, where
            if op == "pow":
                e = step["e"]
                acc = {frozenset(): numpy.ones(tuple(a["shape"]), dtype=d1)}
                for _ in range(e):
                    acc = _m_mul(acc, ma, d1, tuple(a["shape"]))
                return (lambda: self.build(a) ** e), Expect(d1, tuple(a["shape"]), _strip(acc)), op, {"d1": step["d1"]}
            if op == "mul_scalar":
                sc = step["scalar"]
                rt = numpy.result_type(d1, numpy.int64) if d1.kind in "biu" else d1
                # python int is weakly typed: the polynomial's dtype decides, except bool
                rt = numpy.multiply(numpy.zeros((), d1), sc).dtype
                # a Python scalar is not a dtype: only the values are asserted
                return (lambda: self.build(a) * sc), Expect(None, tuple(a["shape"]), _strip({key: numpy.multiply(v, sc) for key, v in ma.items()})), op, {"d1": step["d1"]}
            if op in ("add_npscalar", "add_pyscalar"):
                v = step["value"]
                if op == "add_npscalar":
                    scalar: Any = d2.type(v)
                    primer_scalar: Any = numpy.dtype(step["primer_dtype"]).type(v)
                else:
                    scalar = {"b": bool(v), "i": int(v), "u": int(v), "f": float(v), "c": complex(v)}[d2.kind]
                    primer_scalar = {"b": float(v), "i": float(v), "u": complex(v), "f": int(v), "c": int(v)}[d2.kind]
                sdt = numpy.asarray(scalar).dtype
                try:
                    rt = numpy.add(numpy.zeros((), d1), numpy.zeros((), sdt)).dtype
                    exp = Expect(rt, tuple(a["shape"]), _strip(_m_addsub(ma, {frozenset(): numpy.asarray(scalar)}, numpy.add, d1, sdt, tuple(a["shape"]))))
                except TypeError:
                    exp = Expect(raises=True)

                def thunk_scalar():
                    if step.get("primer"):
                        # history: an equal number of another type went through the same conversion earlier
                        try:
                            numpoly.aspolynomial(primer_scalar)
                            self.build(a) + primer_scalar
                        except Exception:  # noqa: BLE001
                            pass
                    return self.build(a) + scalar

                return thunk_scalar, exp, op, where
            if op == "radd_array":
                arr = numpy.array([_num(v) for v in _data(core.Chooser(self.rs, "radd"), step["d2"], int(numpy.prod(a["shape"], dtype=int)))], dtype=d2).reshape(a["shape"])
                if arr.ndim >= 2 and step.get("e", 0) % 2:
                    arr = numpy.asfortranarray(arr)
                try:
                    rt = numpy.add(numpy.zeros((), d2), numpy.zeros((), d1)).dtype
                    exp = Expect(rt, tuple(a["shape"]), _strip(_m_addsub({frozenset(): arr}, ma, numpy.add, d2, d1, tuple(a["shape"]))))
                except TypeError:
                    exp = Expect(raises=True)
                return (lambda: arr + self.build(a)), exp, op, where
            raise core.HarnessError(op)
        if k == "shape":
            fn = step["fn"]
            a, b = step["a"], step["b"]
            ma, mb = _model(a), _model(b)
            sa = tuple(a["shape"])
            w1 = {"d1": step["d1"]}
            if fn == "getitem":
                i = step["idx"]
                return (lambda: self.build(a)[i]), Expect(d1, sa[1:], _strip({key: v[i] for key, v in ma.items()})), fn, w1
            if fn == "getitem_fancy":
                index = FANCY[step["index"]][1]
                try:
                    want = {key: v[index] for key, v in ma.items()}
                    wshape = numpy.zeros(sa)[index].shape
                except IndexError:
                    return (lambda: self.build(a)[index]), Expect(raises=True), fn, w1
                return (lambda: self.build(a)[index]), Expect(d1, wshape, _strip(want)), fn, dict(w1, size0=not int(numpy.prod(wshape, dtype=int)))
            if fn == "getitem_mask":
                mask = numpy.array(step["mask"], dtype=bool).reshape(sa)
                return (lambda: self.build(a)[mask]), Expect(d1, (int(mask.sum()),), _strip({key: v[mask] for key, v in ma.items()})), fn, dict(w1, size0=not mask.any())
            if fn == "reshape":
                return (lambda: numpoly.reshape(self.build(a), (-1,))), Expect(d1, (int(numpy.prod(sa)),), _strip({key: v.reshape(-1) for key, v in ma.items()})), fn, w1
            if fn == "transpose":
                return (lambda: numpoly.transpose(self.build(a))), Expect(d1, sa[::-1], _strip({key: v.T for key, v in ma.items()})), fn, w1
            if fn == "expand_dims":
                return (lambda: numpoly.expand_dims(self.build(a), 0)), Expect(d1, (1,) + sa, _strip({key: v[None] for key, v in ma.items()})), fn, w1
            if fn == "repeat":
                return (lambda: numpoly.repeat(self.build(a), 2, axis=0)), Expect(d1, (sa[0] * 2,) + sa[1:], _strip({key: numpy.repeat(v, 2, axis=0) for key, v in ma.items()})), fn, w1
            if fn == "tile":
                return (lambda: numpoly.tile(self.build(a), 2)), Expect(d1, numpy.tile(numpy.zeros(sa), 2).shape, _strip({key: numpy.tile(v, 2) for key, v in ma.items()})), fn, w1
            if fn in ("concatenate", "stack", "hstack", "vstack", "dstack"):
                npf = getattr(numpy, fn)
                rt = numpy.result_type(d1, d2)
                keys = set(ma) | set(mb)
                want = {key: npf([ma.get(key, numpy.zeros(sa, d1)), mb.get(key, numpy.zeros(sa, d2))]) for key in keys}
                return (lambda: getattr(numpoly, fn)([self.build(a), self.build(b)])), Expect(rt, npf([numpy.zeros(sa), numpy.zeros(sa)]).shape, _strip(want)), fn, where
            if fn == "where":
                mask = numpy.array(step["mask"], dtype=bool).reshape(sa)
                rt = numpy.result_type(d1, d2)
                keys = set(ma) | set(mb)
                want = {key: numpy.where(mask, ma.get(key, numpy.zeros(sa, d1)), mb.get(key, numpy.zeros(sa, d2))).astype(rt) for key in keys}
                return (lambda: numpoly.where(mask, self.build(a), self.build(b))), Expect(rt, sa, _strip(want)), fn, where
            if fn in ("sum", "cumsum"):
                npf = getattr(numpy, fn)
                probe = npf(numpy.zeros(sa, d1), axis=0)
                return (lambda: getattr(numpoly, fn)(self.build(a), axis=0)), Expect(probe.dtype, probe.shape, _strip({key: npf(v, axis=0) for key, v in ma.items()})), fn, w1
            if fn == "diff":
                try:
                    probe = numpy.diff(numpy.zeros(sa, d1), axis=0)
                    exp = Expect(probe.dtype, probe.shape, _strip({key: numpy.diff(v, axis=0) for key, v in ma.items()}))
                except TypeError:
                    exp = Expect(raises=True)
                return (lambda: numpoly.diff(self.build(a), axis=0)), exp, fn, dict(w1, size0=sa[0] <= 1)
            if fn == "ediff1d":
                try:
                    probe = numpy.ediff1d(numpy.zeros(sa, d1))
                    exp = Expect(probe.dtype, probe.shape, _strip({key: numpy.ediff1d(v) for key, v in ma.items()}))
                except TypeError:
                    exp = Expect(raises=True)
                return (lambda: numpoly.ediff1d(self.build(a))), exp, fn, dict(w1, size0=int(numpy.prod(sa)) <= 1)
            raise core.HarnessError(fn)
        if k == "vanish":
            fn = step["fn"]
            a = step["a"]
            sa = tuple(a["shape"])
            w1 = {"d1": step["d1"]}
            if fn == "p_minus_p":
                exp = Expect(raises=True) if d1.kind == "b" else Expect(d1, sa, {})
                return (lambda: self.build(a) - self.build(a)), exp, fn, w1
            if fn == "p_times_0":
                rt = numpy.multiply(numpy.zeros((), d1), 0).dtype
                return (lambda: self.build(a) * 0), Expect(None, sa, {}), fn, w1
            if fn == "p_times_zero_poly":
                return (lambda: self.build(a) * numpoly.polynomial(numpy.zeros((), dtype=d2))), Expect(numpy.result_type(d1, d2), sa, {}), fn, where
            if fn == "where_false":
                mask = numpy.zeros(sa, dtype=bool)
                return (lambda: numpoly.where(mask, self.build(a), numpoly.polynomial(numpy.zeros(sa, dtype=d1)))), Expect(d1, sa, {}), fn, w1
            if fn == "set_dimensions_all":
                return (lambda: numpoly.set_dimensions(self.build(a), 1)), Expect(d1, sa, {}), fn, w1
            if fn == "mask_none":
                if not sa:
                    return (lambda: self.build(a)[()]), Expect(d1, (), _strip(_model(a))), "getitem", w1
                mask = numpy.zeros(sa, dtype=bool)
                return (lambda: self.build(a)[mask]), Expect(d1, (0,), {}), fn, dict(w1, size0=True)
            if fn == "sub_cancel_some":
                if d1.kind == "b":
                    return (lambda: self.build(a) - self.build(a)), Expect(raises=True), fn, w1
                first = dict(a, exponents=a["exponents"][:1], coefficients=a["coefficients"][:1])
                rest = {key: v for key, v in list(_model(a).items())[1:]}
                return (lambda: self.build(a) - self.build(first)), Expect(d1, sa, _strip(rest)), fn, w1
            raise core.HarnessError(fn)
        if k == "create":
            fn = step["fn"]
            a, v = step["a"], step["v"]
            sa = tuple(a["shape"])
            mv = _model(v)
            shp = tuple(step["shape"])
            if fn == "full":
                return (lambda: numpoly.full(shp, self.build(v))), Expect(d2, shp, _strip({key: numpy.full(shp, c, dtype=d2) for key, c in mv.items()})), fn, {"d2": step["d2"]}
            if fn == "full_like":
                return (lambda: numpoly.full_like(self.build(a), self.build(v))), Expect(None, sa, None), fn, where  # dtype rule unspecified: independence only
            if fn == "zeros_like":
                return (lambda: numpoly.zeros_like(self.build(a))), Expect(d1, sa, {}), fn, {"d1": step["d1"]}
            if fn == "ones_like":
                return (lambda: numpoly.ones_like(self.build(a))), Expect(d1, sa, _strip({frozenset(): numpy.ones(sa, d1)})), fn, {"d1": step["d1"]}
            if fn == "zeros":
                return (lambda: numpoly.zeros(shp, dtype=d2)), Expect(d2, shp, {}), fn, {"d2": step["d2"]}
            if fn == "ones":
                return (lambda: numpoly.ones(shp, dtype=d2)), Expect(d2, shp, _strip({frozenset(): numpy.ones(shp, d2)})), fn, {"d2": step["d2"]}
        raise core.HarnessError(k)

    @staticmethod
    def fingerprint(res: Any) -> Any:
        import numpoly

        if not isinstance(res, numpoly.ndpoly):
            return ("other", type(res).__name__, repr(res)[:200])
        coefs = res.coefficients
        exps = numpy.asarray(res.exponents).tolist()
        items = sorted((tuple(e), numpy.asarray(c).tobytes().hex()) for e, c in zip(exps, coefs))
        return ("ndpoly", tuple(res.shape), str(res.dtype), tuple(res.names), items)

    def run_step(self, step: dict) -> None:
        import numpoly

        sid = step["id"]
        with numpy.errstate(all="ignore"):
            thunk, exp, opname, where = self.prepare(step)
        self.bump(f"op:{opname}")
        fps = []
        for fill in self.plan["fills"]:
            with seams.Env(core.H(self.rs, fill), sort="stable", fill=fill, guarded=True) as env:
                env.begin_step(sid)
                if fill == "stale":
                    # something plausible to recycle: an earlier numpoly result of this run
                    try:
                        junk = numpoly.polynomial([[7, 9], [11, 13]]) * numpoly.variable(2)[1] + 5
                        env.remember(junk)
                        env.remember(numpy.asarray(junk.coefficients[0]))
                    except Exception:  # noqa: BLE001
                        pass
                outcome: Any
                if step.get("abort_first") is not None:
                    # history: the same request was made before and aborted between two lines of numpoly code
                    with numpy.errstate(all="ignore"):
                        seams.interrupted_first(thunk, NUMPOLY_DIR, step["abort_first"], self.stats)
                try:
                    with numpy.errstate(all="ignore"):
                        res = thunk()
                    outcome = ("ok", res)
                except Exception as exc:  # noqa: BLE001
                    if not core.through_numpoly(exc, NUMPOLY_DIR) and not isinstance(exc, TypeError):
                        raise
                    outcome = ("raised", type(exc).__name__, str(exc)[:150])
                hits = env.check_canaries()
                allocs = env.counters.get("seam:heap.ndpoly_allocs", 0) + env.counters.get("seam:heap.empty_allocs", 0)
                for key in ("seam:heap.ndpoly_allocs", "seam:heap.empty_allocs", "seam:heap.bytes_filled", "probe:redzone_hits"):
                    self.bump(key, env.counters.get(key, 0))
            self.bump("decided")
            if allocs:
                self.sigs.add(f"{opname}|{step['d1']}|{step['d2']}|{core.H(core.jdump(step))}|{fill}")
            tag = f"fill={fill}" + (f" redzone_hits={hits}" if hits else "")
            if outcome[0] == "raised":
                fps.append(("raised", outcome[1]))
                if not exp.raises and not exp.may_raise:
                    self.violate("raises-where-numpy-works", opname, sid, f"[{tag}] {outcome[1]}: {outcome[2]}", dict(where, exc=outcome[1]))
                continue
            res = outcome[1]
            fps.append(self.fingerprint(res))
            if exp.raises:
                self.violate("works-where-numpy-raises", opname, sid, f"[{tag}] returned {str(res)[:80]} although the numpy expression raises", where)
                continue
            if not isinstance(res, numpoly.ndpoly):
                self.violate("value", opname, sid, f"[{tag}] returned {type(res).__name__}", where)
                continue
            if exp.canon is None:
                continue
            try:
                have = model.canon(res)
            except core.Violation as v:
                self.violate(v.clause, opname, sid, f"[{tag}] {v.detail}", where)
                continue
            problems = []
            if exp.dtype is not None and res.dtype != exp.dtype:
                problems.append(f"dtype {res.dtype}, expected {exp.dtype}")
            if exp.shape is not None and tuple(res.shape) != tuple(exp.shape):
                problems.append(f"shape {res.shape}, expected {tuple(exp.shape)}")
            if not problems and not self._canon_same(exp.canon, have, exp.dtype is not None):
                unwritten = self._looks_unwritten(have, exp.canon, fill)
                problems.append(f"values {model.canon_text(have)[:160]} expected {model.canon_text(exp.canon)[:160]}" + (" (unwritten: the fill pattern is visible)" if unwritten else ""))
            if problems:
                self.violate("value", opname, sid, f"[{tag}] " + "; ".join(problems), where)
        comparable = [f for f in fps]
        if len(set(map(str, comparable))) > 1:
            self.violate("fill-independent", opname, sid, f"result depends on the content of fresh memory: fills {self.plan['fills']} gave {[str(f)[:120] for f in comparable]}"[:600], where)
        self.events.append([opname, str(fps[0])[:400] if fps else None])

    @staticmethod
    def _canon_same(a: dict, b: dict, check_dtype: bool = True) -> bool:
        if set(a) != set(b):
            return False
        for key in a:
            x, y = numpy.asarray(a[key]), numpy.asarray(b[key])
            # (byte order is a property of the storage, checked on the polynomial's dtype; element access may hand out
            #  native-order scalars)
            if x.shape != y.shape or (check_dtype and x.dtype.newbyteorder("=") != y.dtype.newbyteorder("=")):
                return False
            if not numpy.array_equal(x, y, equal_nan=x.dtype.kind in "fc" and y.dtype.kind in "fc"):
                return False
        return True

    @staticmethod
    def _looks_unwritten(have: dict, want: dict, fill: str) -> bool:
        pat = {"a5": 0xA5, "ff": 0xFF}.get(fill)
        if pat is None:
            return False
        for key, v in have.items():
            raw = numpy.ascontiguousarray(v).tobytes()
            if raw and all(b == pat for b in raw[: min(len(raw), 8)]):
                return True
        return False

    def run(self) -> None:
        for step in self.plan["steps"]:
            self.run_step(step)


def execute(plan: dict) -> dict:
    import warnings

    runner = Runner(plan)
    with warnings.catch_warnings():
        warnings.simplefilter("ignore")
        prelude.run_prelude(plan.get("prelude"), runner.stats)
        runner.run()
    return {"violations": runner.violations, "events": runner.events, "stats": runner.stats, "sigs": sorted(runner.sigs)}


def simplify(plan: dict):
    if plan.get("prelude"):
        yield dict(plan, prelude=None)
        for i in range(len(plan["prelude"])):
            yield dict(plan, prelude=plan["prelude"][:i] + plan["prelude"][i + 1:] or None)
    if len(plan["fills"]) > 2:
        for f in plan["fills"][1:]:
            yield dict(plan, fills=[plan["fills"][0], f])
    if len(plan["fills"]) > 1:
        for f in plan["fills"]:
            yield dict(plan, fills=[f])
    step = plan["steps"][0]
    if step.get("abort_first") is not None:
        yield dict(plan, steps=[{k: v for k, v in step.items() if k != "abort_first"}])
    for key in ("a", "b", "p"):
        lit = step.get(key)
        if isinstance(lit, dict) and "exponents" in lit:
            n = len(lit["exponents"])
            if n > 1:
                for i in range(n):
                    yield dict(plan, steps=[dict(step, **{key: dict(lit, exponents=lit["exponents"][:i] + lit["exponents"][i + 1:], coefficients=lit["coefficients"][:i] + lit["coefficients"][i + 1:])})])
