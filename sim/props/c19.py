"""C19 — leading-term queries, decomposition and the sort proxy match the polynomial.

Seams: tie order of the unstable sorts (lead_* walk glexsort order, the proxy
ranks through argsorts) and the content of fresh memory (set_dimensions
dropping every term, decompose, zero elements).  Every case runs under tie
policies x heap fills; results must equal the oracle and be identical across
them.
"""
from __future__ import annotations

from typing import Any, Dict, List, Optional

import numpy

from .. import prelude, core, model, seams
from ..model import gen_poly
from ..runner import NUMPOLY_DIR

ID = "C19"
LEVEL = "exploration"
FILLS = ["zero", "a5", "ff", "prng", "stale"]
POLICIES = ["stable", "reversed", "rotated", "prng"]
RULE = (
    "C01-space arrays with zero elements, equal leading terms, negative leading coefficients, integer coefficients beyond 2**53 that differ by one and ties in (lead exponent, lead "
    "coefficient); graded/reverse flags, sort options, target dimensions 1..5; each case runs under (tie policy, heap fill) "
    "environments: stable/zero plus seeded others (quick: 3 environments, thorough: all 20). Distinct non-trivial = distinct "
    "(case, environment) where the polynomial has >=2 terms of equal total degree (tie seam has a choice) or the operation "
    "allocates a buffer that the oracle later reads (heap seam has a choice)."
)
COMPONENTS = {
    "real": ["numpoly.lead_exponent/lead_coefficient/sortable_proxy/argmax/argmin/amax/amin/isconstant/tonumpy/todict/decompose/set_dimensions", "numpy"],
    "stand_ins": ["tie order of unstable argsort", "bytes of freshly allocated ndpoly / numpy.empty buffers"],
}
ASSUMPTIONS = ["real (int/float) coefficients only; names in numeric-suffix order"]


def setup() -> None:
    pass


def budget(tier: str) -> int:
    return 3000 if tier == "quick" else 150000


def generate(rs: int, tier: str, index: int) -> dict:
    ch = core.Chooser(rs, "plan")
    kind = ch.weighted([(4, "lead"), (3, "proxy"), (3, "extreme"), (2, "decompose"), (3, "set_dimensions"), (1, "const"), (2, "queries")])
    names = model.gen_names(ch.sub("n"), 1, 4 if kind == "set_dimensions" else 3)
    shape = ch.choice([(), (2,), (3,), (4,), (2, 2), (2, 3), (1, 2, 2)])
    kindc = ch.weighted([(3, "int"), (2, "float")])
    lit = gen_poly(ch.sub("p"), names=names, shape=shape, kind=kindc, same_degree=ch.choice([None, None, 3, 5, 9]), max_exp=3)
    size = int(numpy.prod(shape, dtype=int))
    # make some elements zero / give elements equal leading terms
    if size > 1 and ch.chance(0.5):
        j = ch.below(size)
        for col in lit["coefficients"]:
            col[j] = 0 if kindc == "int" else 0.0
    if size > 1 and ch.chance(0.4):
        i, j = ch.below(size), ch.below(size)
        for col in lit["coefficients"]:
            col[j] = col[i]
        if ch.chance(0.5) and lit["coefficients"]:
            t = ch.below(len(lit["coefficients"]))
            lit["coefficients"][t][j] = lit["coefficients"][t][j] + 1
    step: Dict[str, Any] = {"id": 0, "k": kind, "p": lit, "graded": ch.chance(0.5), "reverse": ch.chance(0.5)}
    if kind in ("lead", "proxy", "extreme", "queries") and ch.chance(0.3):
        step["mutate"] = True  # history on the same object: query, overwrite the coefficients in place, query again
    if ch.chance(0.25):
        step["scribble"] = True
    ctiny = ch.sub("tiny")
    if kindc == "float" and ctiny.chance(0.12):
        # non-constant terms with tiny coefficients (1e-9 ... subnormal): small is not zero
        for e, col in zip(lit["exponents"], lit["coefficients"]):
            if sum(e):
                col[:] = [(v and ctiny.choice([1e-9, -1e-12, 1e-30, 5e-324])) for v in col]
    cbig = ch.sub("bigint")
    if kindc == "int" and kind in ("lead", "proxy", "extreme", "queries", "const") and cbig.chance(0.15):
        # integer coefficients beyond 2**53 that differ by one or two: distinct numbers, one float64
        for col in lit["coefficients"]:
            col[:] = [(v and (1 if v > 0 else -1) * (2 ** cbig.choice([53, 53, 60]) + cbig.below(4))) for v in col]
        step["big_ints"] = True
    if ch.sub("npflags").chance(0.15):
        step["np_flags"] = True
    if ch.sub("results").chance(0.25):
        step["scribble_results"] = True  # a caller overwrote what the queries returned; the polynomial itself was not touched
    if ch.sub("abort").chance(0.15):
        step["abort_first"] = ch.sub("abort").below(100000)  # the same query was made before and aborted part-way
    if kindc == "float" and kind in ("decompose", "lead", "queries") and size and ch.chance(0.2):
        # an overflowed coefficient: infinities are legal values
        t = ch.below(len(lit["coefficients"]))
        lit["coefficients"][t][ch.below(size)] = ch.choice([float("inf"), float("-inf")])
    if kind in ("lead", "proxy", "extreme") and ch.chance(0.3):
        step["primer"] = True  # an earlier query on a different polynomial whose exponent matrix holds the same numbers in another width
    if ch.chance(0.35):  # the queries say nothing about the retain options: they must hold under any of them
        step["options"] = {"retain_names": ch.chance(0.4), "retain_coefficients": ch.chance(0.5)}
    if kind == "extreme":
        step["fn"] = ch.choice(["argmax", "argmin", "amax", "amin"])
    if kind == "set_dimensions":
        step["dims"] = ch.between(1, 5)
        if ch.chance(0.3):
            # every term involves the last name: dropping it drops everything
            last = len(names) - 1
            for e in lit["exponents"]:
                if e[last] == 0:
                    e[last] = 1
            uniq = []
            keep_c = []
            for e, c in zip(lit["exponents"], lit["coefficients"]):
                if e not in uniq:
                    uniq.append(e)
                    keep_c.append(c)
            lit["exponents"], lit["coefficients"] = uniq, keep_c
            step["dims"] = ch.between(1, max(1, len(names) - 1))
    if kind == "const":
        step["p"] = model.gen_constant(ch.sub("c"), shape=shape, kind=kindc, names=names)
        step["fn"] = ch.choice(["tonumpy", "proxy", "isconstant"])
    envs = [("stable", "zero")]
    allenvs = [(p, f) for p in POLICIES for f in FILLS]
    if tier == "thorough":
        envs = allenvs
    else:
        envs += ch.sample([e for e in allenvs if e != ("stable", "zero")], 2)
    return {"property": ID, "run_seed": rs, "tier": tier, "prelude": prelude.gen_prelude(core.Chooser(rs, "prelude")), "envs": [list(e) for e in envs], "steps": [step]}


class Runner:
    def __init__(self, plan: dict):
        self.plan = plan
        self.rs = plan["run_seed"]
        self.violations: List[dict] = []
        self.events: List[Any] = []
        self.stats: Dict[str, int] = {}
        self.sigs: set = set()

    def bump(self, key: str, n: int = 1) -> None:
        self.stats[key] = self.stats.get(key, 0) + n

    def violate(self, clause: str, op: str, sid: Any, detail: str, where: Optional[dict] = None) -> None:
        rec = core.Violation(clause, op, detail, where or {}, sid).record()
        if not any(core.vclass(r) == core.vclass(rec) for r in self.violations):
            self.violations.append(rec)
        self.events.append(["violation", sid, clause, op])

    def run_step(self, step: dict) -> None:
        import numpoly

        kind = step["k"]
        sid = step["id"]
        fps = []
        for pol, fill in self.plan["envs"]:
            with seams.Env(core.H(self.rs, pol, fill), sort=pol, fill=fill) as env:
                env.begin_step(sid)
                try:
                    p = model.build_poly(step["p"])
                except core.Undecided as exc:
                    self.bump(f"undecided:{exc.reason}")
                    return
                env.remember(p)
                names, els = model.elements(p)
                nv = len(names)
                g, r = step["graded"], step["reverse"]
                if step.get("np_flags"):
                    g, r = numpy.bool_(g), numpy.bool_(r)  # flags computed with numpy arrive as numpy.bool_
                tag = f"{pol}/{fill}"
                try:
                    with numpoly.global_options(**step.get("options", {})):
                        if step.get("primer"):
                            self._primer(step, kind, g, r, tag, numpoly)
                        if step.get("scribble") and p.size:
                            # an earlier caller edited the arrays the accessors handed out (they are computed copies)
                            e = p.exponents
                            e[...] = e * 2 + 1
                            for c in p.coefficients:
                                numpy.asarray(c)[...] = 7
                            self.bump("probe:accessor_results_scribbled")
                        if step.get("abort_first") is not None:
                            nviol, nev = len(self.violations), len(self.events)
                            seams.interrupted_first(lambda: self.check(kind, step, p, names, els, nv, g, r, tag, numpoly), NUMPOLY_DIR, step["abort_first"], self.stats)
                            del self.violations[nviol:], self.events[nev:]
                        fp = self.check(kind, step, p, names, els, nv, g, r, tag, numpoly)
                        if step.get("scribble_results") and p.size:
                            self._scribble_results(p, g, r, numpoly)
                            fp = fp + "|" + self.check(kind, step, p, names, els, nv, g, r, tag + "/after-results-overwritten", numpoly)
                        if step.get("mutate") and p.size:
                            # the same object again, after its coefficients were overwritten in place
                            vals = p.values
                            for key, exp in zip(p.keys, numpy.asarray(p.exponents).tolist()):
                                if kind == "queries":
                                    if any(exp):
                                        vals[key] = 0 if fp == "False" else 1
                                else:
                                    vals[key] = -vals[key]
                            self.bump("probe:requery_after_inplace_update")
                            names, els = model.elements(p)
                            fp = fp + "|" + self.check(kind, step, p, names, els, nv, g, r, tag + "/after-update", numpoly)
                except core.Violation as exc:
                    self.violate(exc.clause, exc.op if exc.op != "accessors" else kind, sid, f"[{tag}] {exc.detail}")
                    fp = "violation"
                except Exception as exc:  # noqa: BLE001
                    if not core.through_numpoly(exc, NUMPOLY_DIR):
                        raise
                    self.violate("operation-raises", step.get("fn") or kind, sid, f"[{tag}] {type(exc).__name__}: {exc}"[:300])
                    fp = "violation"
                self.bump("decided")
                for key in ("seam:sort.consults", "seam:sort.consults_with_tie", "seam:heap.ndpoly_allocs", "seam:heap.empty_allocs", "seam:heap.bytes_filled", "probe:tie_among_3_or_more"):
                    self.bump(key, env.counters.get(key, 0))
            fps.append(fp)
            degs = [sum(e) for e in step["p"]["exponents"]]
            if len(degs) != len(set(degs)) or kind in ("set_dimensions", "decompose"):
                self.sigs.add(f"{core.H(core.jdump(step))}|{pol}|{fill}")
        if any(f != fps[0] for f in fps[1:]) and "violation" not in fps:
            self.violate("environment-independent", kind, sid, f"results differ between environments {self.plan['envs']}: {fps}"[:500])
        self.events.append([kind, fps[0]])

    def _scribble_results(self, p: Any, g: bool, r: bool, numpoly: Any) -> None:
        """Every array a query hands out is the caller's to overwrite (the queries return computed values)."""
        queries = [lambda: numpoly.lead_exponent(p, graded=g, reverse=r), lambda: numpoly.lead_coefficient(p, graded=g, reverse=r),
                   lambda: numpoly.sortable_proxy(p, graded=g, reverse=r), lambda: numpoly.tonumpy(p), lambda: p.tonumpy(),
                   lambda: numpoly.decompose(p), lambda: p.todict(), lambda: numpoly.lead_coefficient(p), lambda: numpoly.lead_exponent(p)]
        results = []
        for query in queries:
            try:
                results.append(query())
            except Exception:  # noqa: BLE001
                pass

        def destroy(res: Any) -> None:
            if isinstance(res, numpoly.ndpoly):
                raw = numpy.ndarray.view(res, numpy.ndarray)
                if raw.flags.writeable and raw.size:
                    for key in raw.dtype.names or ():
                        raw[key][...] = 7
            elif isinstance(res, numpy.ndarray):
                if res.flags.writeable and res.size and res.dtype.kind in "biufc":
                    res[...] = 7
            elif isinstance(res, dict):
                for v in res.values():
                    destroy(v)
            elif isinstance(res, (list, tuple)):
                for v in res:
                    destroy(v)

        for res in results:
            destroy(res)
        self.bump("probe:query_results_overwritten")

    def check(self, kind: str, step: dict, p: Any, names: tuple, els: list, nv: int, g: bool, r: bool, tag: str, numpoly: Any) -> str:
        sid = step["id"]
        shape = tuple(p.shape)
        if kind == "lead":
            le = numpoly.lead_exponent(p, graded=g, reverse=r)
            lc = numpoly.lead_coefficient(p, graded=g, reverse=r)
            le_np = numpy.asarray(le)
            if le_np.shape != shape + (nv,):
                self.violate("lead-exponent", "lead_exponent", sid, f"[{tag}] shape {le_np.shape} expected {shape + (nv,)}")
                return "x"
            lc_np = numpy.asarray(lc)
            if lc_np.shape != shape:
                self.violate("lead-coefficient", "lead_coefficient", sid, f"[{tag}] shape {lc_np.shape} expected {shape}")
                return "x"
            le_flat = le_np.reshape(-1, nv).tolist()
            lc_flat = lc_np.ravel().tolist()
            for i, el in enumerate(els):
                we, wc = model.lead(el, nv, g, r)
                if tuple(le_flat[i]) != tuple(we):
                    self.violate("lead-exponent", "lead_exponent", sid, f"[{tag}] graded={g} reverse={r} element {i}: got {le_flat[i]} expected {list(we)} for {el}", {"policy": tag.split('/')[0]} if tag.split('/')[0] != "stable" else {})
                    break
                if lc_flat[i] != wc:
                    self.violate("lead-coefficient", "lead_coefficient", sid, f"[{tag}] graded={g} reverse={r} element {i}: got {lc_flat[i]} expected {wc}", {"policy": tag.split('/')[0]} if tag.split('/')[0] != "stable" else {})
                    break
            return f"{le_np.tolist()}|{lc_np.tolist()}"
        if kind == "proxy" or (kind == "const" and step.get("fn") == "proxy"):
            proxy = numpy.asarray(numpoly.sortable_proxy(p, graded=g, reverse=r))
            self._check_proxy(proxy, els, nv, g, r, shape, sid, tag)
            return "proxy-ok"  # tied elements may legally come in any order: not part of the fingerprint
        if kind == "extreme":
            fn = step["fn"]
            with numpoly.global_options(sort_graded=g, sort_reverse=r):
                res = getattr(numpoly, fn)(p)
            keys = [self._key(el, nv, g, r) for el in els]
            if not keys:
                return "empty"
            best = max(keys) if fn in ("argmax", "amax") else min(keys)
            if fn.startswith("arg"):
                idx = int(res)
                if not (0 <= idx < len(keys)) or keys[idx] != best:
                    self.violate("extreme-selects", fn, sid, f"[{tag}] graded={g} reverse={r}: index {idx} has key {keys[idx] if 0 <= idx < len(keys) else None}, extreme key is {best}")
                return f"key={keys[idx] if 0 <= idx < len(keys) else None}"
            if not isinstance(res, numpoly.ndpoly) or res.shape != ():
                self.violate("extreme-selects", fn, sid, f"[{tag}] returned {type(res).__name__} shape {getattr(res, 'shape', None)}")
                return "x"
            _, rel = model.elements(res, names) if set(res.names) <= set(names) else (None, None)
            ok = rel is not None and any(self._el_equal(rel[0], el) and k == best for el, k in zip(els, keys))
            if not ok:
                self.violate("extreme-selects", fn, sid, f"[{tag}] graded={g} reverse={r}: returned {rel[0] if rel else res.names} which is not an element with the extreme key {best}")
            return f"key={best}"
        if kind == "decompose":
            dec = numpoly.decompose(p)
            if not isinstance(dec, numpoly.ndpoly) or dec.shape[1:] != shape:
                self.violate("decompose", "decompose", sid, f"[{tag}] shape {getattr(dec, 'shape', None)} for input shape {shape}")
                return "x"
            _, del_ = model.elements(dec, names)
            size = len(els)
            total: List[Dict[tuple, Any]] = [dict() for _ in range(size)]
            for s in range(dec.shape[0]):
                monos = set()
                for i in range(size):
                    el = del_[s * size + i]
                    monos.update(el)
                    for k, v in el.items():
                        total[i][k] = total[i].get(k, 0) + v
                if len(monos) > 1:
                    self.violate("decompose", "decompose", sid, f"[{tag}] slice {s} holds several monomials {sorted(monos)}")
                    return "x"
            total = [{k: v for k, v in el.items() if v != 0} for el in total]
            if any(not self._el_equal(a, b) for a, b in zip(total, els)):
                self.violate("decompose", "decompose", sid, f"[{tag}] slices do not sum to the input")
            return model.poly_fingerprint(dec)
        if kind == "set_dimensions":
            dims = step["dims"]
            res = numpoly.set_dimensions(p, dims)
            if not isinstance(res, numpoly.ndpoly):
                self.violate("set-dimensions", "set_dimensions", sid, f"[{tag}] returned {type(res).__name__}")
                return "x"
            if len(res.names) != dims or len(set(res.names)) != dims:
                self.violate("set-dimensions", "set_dimensions", sid, f"[{tag}] names {res.names} for dimensions={dims}")
                return "x"
            if dims >= nv:
                if tuple(res.names[:0]) != () and not set(names) <= set(res.names):
                    self.violate("set-dimensions", "set_dimensions", sid, f"[{tag}] names {res.names} lost some of {names}")
                    return "x"
                want = model.canon(p)
            else:
                if tuple(res.names) != tuple(names[:dims]):
                    self.violate("set-dimensions", "set_dimensions", sid, f"[{tag}] names {res.names} expected {names[:dims]}")
                    return "x"
                dropped = set(names[dims:])
                want = {k: v for k, v in model.canon(p).items() if not any(n in dropped for n, _ in k)}
            have = model.canon(res)
            if tuple(res.shape) != shape or res.dtype != p.dtype:
                self.violate("set-dimensions", "set_dimensions", sid, f"[{tag}] shape/dtype {res.shape}/{res.dtype}, expected {shape}/{p.dtype}", {"all_dropped": not want})
            elif not model.canon_equal(want, have):
                self.violate("set-dimensions", "set_dimensions", sid, f"[{tag}] dims={dims}: got {model.canon_text(have)[:200]} expected {model.canon_text(want)[:200]}", {"all_dropped": not want})
            return model.poly_fingerprint(res) + "|" + ",".join(res.names)
        if kind == "queries":
            # isconstant / tonumpy / todict against the term dictionaries
            is_const = all(all(sum(k) == 0 for k in el) for el in els)
            got_const = bool(numpoly.isconstant(p))
            if got_const != is_const:
                self.violate("isconstant", "isconstant", sid, f"[{tag}] isconstant={got_const} for elements {els[:3]}")
            # the same question about the raw structured storage (a legal poly-like: aspolynomial turns it back)
            for label, raw in (("values", p.values), ("values.copy()", numpy.array(p.values))):
                try:
                    got_raw = bool(numpoly.isconstant(raw))
                except Exception as exc:  # noqa: BLE001
                    self.violate("isconstant", "isconstant", sid, f"[{tag}] isconstant({label}) raised {type(exc).__name__}: {exc}", {"input": "raw"})
                    break
                if got_raw != is_const:
                    self.violate("isconstant", "isconstant", sid, f"[{tag}] isconstant({label})={got_raw} for elements {els[:3]}", {"input": "raw"})
                    break
            try:
                arr = numpoly.tonumpy(p)
                raised = False
            except numpoly.FeatureNotSupported:
                raised = True
            if raised == is_const:
                self.violate("tonumpy", "tonumpy", sid, f"[{tag}] tonumpy {'raised' if raised else 'returned'} for a {'constant' if is_const else 'non-constant'} polynomial")
            elif not raised:
                want_vals = [el.get((0,) * nv, 0) for el in els]
                if numpy.asarray(arr).shape != shape or numpy.asarray(arr).ravel().tolist() != want_vals:
                    self.violate("tonumpy", "tonumpy", sid, f"[{tag}] got {numpy.asarray(arr).tolist()} expected {want_vals}")
            dct = p.todict()
            rebuilt: List[Dict[tuple, Any]] = [dict() for _ in els]
            for key, coef in dct.items():
                flat = numpy.asarray(coef).ravel()
                if len(key) != nv or len(flat) != len(els):
                    self.violate("todict", "todict", sid, f"[{tag}] key {key} / coefficient shape {numpy.shape(coef)}")
                    return "x"
                for i, v in enumerate(flat.tolist()):
                    if v != 0:
                        rebuilt[i][tuple(int(x) for x in key)] = v
            if any(not self._el_equal(a, b) for a, b in zip(rebuilt, els)):
                self.violate("todict", "todict", sid, f"[{tag}] todict() does not describe the polynomial")
            return f"{is_const}"
        if kind == "const":
            fn = step["fn"]
            vals = numpy.asarray(p.coefficients[0]) if p.size else numpy.zeros(shape)
            if fn == "isconstant":
                if numpoly.isconstant(p) is not True and not bool(numpoly.isconstant(p)):
                    self.violate("isconstant", "isconstant", sid, f"[{tag}] constant reported non-constant")
                return "const"
            arr = numpoly.tonumpy(p)
            if not isinstance(arr, numpy.ndarray) or isinstance(arr, numpoly.ndpoly) or arr.shape != shape or not numpy.array_equal(arr, vals):
                self.violate("tonumpy", "tonumpy", sid, f"[{tag}] got {arr!r}")
            return str(numpy.asarray(arr).tolist())
        raise core.HarnessError(kind)

    def _primer(self, step: dict, kind: str, g: bool, r: bool, tag: str, numpoly: Any) -> None:
        """The same query, earlier in the process, on a polynomial whose exponent matrix has the same
        numbers in another width (a cache keyed on the exponent bytes alone would confuse the two)."""
        lit = step["p"]
        flat = [v for row in lit["exponents"] for v in row]
        nv = len(lit["names"])
        width = 1 if nv > 1 else 2
        if len(flat) % width:
            flat = flat + [0]
        rows = []
        for i in range(0, len(flat), width):
            row = flat[i:i + width]
            if row not in rows:
                rows.append(row)
        pl = {"names": ["q0", "q1"][:width], "shape": [2], "dtype": "int64", "exponents": rows,
              "coefficients": [[i + 1, -(i + 1)] for i in range(len(rows))], "retain": True}
        try:
            q = model.build_poly(pl)
        except core.Undecided:
            return
        qnames, qels = model.elements(q)
        self.bump("probe:primer_with_same_exponent_numbers")
        self.check(kind, dict(step, p=pl), q, qnames, qels, len(qnames), g, r, tag + "/primer", numpoly)

    @staticmethod
    def _el_equal(x: dict, y: dict) -> bool:
        return set(x) == set(y) and all(x[k] == y[k] for k in x)

    @staticmethod
    def _key(el: dict, nv: int, g: bool, r: bool) -> tuple:
        e, c = model.lead(el, nv, g, r)
        return (model.order_key(e, g, r), c)

    def _check_proxy(self, proxy: Any, els: list, nv: int, g: bool, r: bool, shape: tuple, sid: Any, tag: str) -> None:
        if proxy.shape != shape:
            self.violate("proxy-permutation", "sortable_proxy", sid, f"[{tag}] shape {proxy.shape} expected {shape}")
            return
        flat = proxy.ravel().tolist()
        if sorted(flat) != list(range(len(els))):
            self.violate("proxy-permutation", "sortable_proxy", sid, f"[{tag}] not a permutation of 0..{len(els) - 1}: {flat}")
            return
        keys = [self._key(el, nv, g, r) for el in els]
        order = sorted(range(len(els)), key=lambda i: flat[i])
        for a, b in zip(order, order[1:]):
            if keys[a] > keys[b]:
                self.violate("proxy-order", "sortable_proxy", sid, f"[{tag}] graded={g} reverse={r}: element {a} (key {keys[a]}) ranked below element {b} (key {keys[b]})", {"policy": tag.split('/')[0]} if tag.split('/')[0] != "stable" else {})
                return

    def run(self) -> None:
        for step in self.plan["steps"]:
            self.bump(f"op:{step['k']}")
            self.run_step(step)


def execute(plan: dict) -> dict:
    import warnings

    runner = Runner(plan)
    with warnings.catch_warnings():
        warnings.simplefilter("ignore")
        with numpy.errstate(all="ignore"):
            prelude.run_prelude(plan.get("prelude"), runner.stats)
            runner.run()
    return {"violations": runner.violations, "events": runner.events, "stats": runner.stats, "sigs": sorted(runner.sigs)}


def simplify(plan: dict):
    if plan.get("prelude"):
        yield dict(plan, prelude=None)
        for i in range(len(plan["prelude"])):
            yield dict(plan, prelude=plan["prelude"][:i] + plan["prelude"][i + 1:] or None)
    if len(plan["envs"]) > 1:
        for env in plan["envs"]:
            yield dict(plan, envs=[env])
        for env in plan["envs"][1:]:
            yield dict(plan, envs=[plan["envs"][0], env])
    step = plan["steps"][0]
    for key in ("options", "abort_first", "scribble", "scribble_results", "primer", "mutate"):
        if step.get(key) is not None and step.get(key) is not False:
            yield dict(plan, steps=[{k: v for k, v in step.items() if k != key}])
    for lit in model.lit_shrinks(step["p"]):
        yield dict(plan, steps=[dict(step, p=lit)])
