"""C20 — monomials are never confused, whatever the exponent size.

Run shape: a "monomial journey" — a polynomial with large exponents is carried
through construction, the raw structured view and back, alignment, * and **,
differentiation, evaluation, pickling and savetxt->loadtxt through the FileSeam
(stream kind / encoding attribute / locale / write faults: the text-file clause
is the environment-dependent one).  After every stage: the stage raised, or
the set of (exponent tuple, coefficient) pairs is exactly the model's.
"""
from __future__ import annotations

import pickle
from typing import Any, Dict, List, Optional, Tuple

import numpy

from .. import prelude, core, model, fileseam, seams
from ..runner import NUMPOLY_DIR

ID = "C20"
LEVEL = "exploration"
RULE = (
    "journeys: 1-3 exponent tuples over 1-3 names drawn from {0..600} + powers of two +-1 up to 1e5 + boundaries (68/69, 196/197, "
    "255/256, 55236..57300, 65476/65477) through a seeded sequence of stages {struct view round trip, align, *, ** (also an array of powers), derivative, "
    "evaluation at 1 / symbol swap, pickle, savetxt->loadtxt on {text stream, bytes stream, path} x locale {utf-8, latin-1, ascii} "
    "x write fault}, some with int32/int16 coefficients and some under a HeapSeam fill pattern; range sweeps: every exponent value of a window encoded/decoded through construction (thorough: the whole "
    "representable range below 1 114 052), and (sum of q0**a) * q0**b for every a+b<=600. Distinct non-trivial = distinct "
    "(stage, exponent tuple set, environment) with an exponent >= 69 (outside the one-byte/ASCII key range)."
)
COMPONENTS = {
    "real": ["numpoly key encoding (ndpoly.__new__/exponents), polynomial(struct), align, multiply/power (compiled kernel and fallback), derivative, call, pickle, savetxt/loadtxt", "numpy"],
    "stand_ins": ["file objects, path router, locale and I/O errors of the text-file stage (FileSeam)"],
}
ASSUMPTIONS = [
    "a stage that raises ends the journey without a verdict unless every exponent is below 55 000 and the stage is not the text-file stage",
    "int64 coefficients small enough never to overflow",
]

SAFE = 55000
WINDOW = 2000
MAXEXP = 1114052


def setup() -> None:
    pass


def budget(tier: str) -> int:
    return 2500 if tier == "quick" else 100000 + MAXEXP // WINDOW + 700


def _exp_value(ch: core.Chooser) -> int:
    r = ch.below(100)
    if r < 35:
        return ch.below(12)
    if r < 60:
        return ch.between(0, 600)
    if r < 80:
        return ch.choice([68, 69, 70, 127, 128, 129, 196, 197, 198, 255, 256, 257, 1023, 1024, 4095, 4096, 4097, 65476, 65477, 54999, 55000])
    if r < 92:
        k = ch.between(3, 16)
        return max(0, 2 ** k + ch.choice([-1, 0, 1]))
    if r < 97:
        return ch.between(55236, 57300)
    return ch.between(600, 100000)


def _gen_terms(ch: core.Chooser, nv: int, nterms: int, small: bool = False) -> Dict[str, Any]:
    exps: List[List[int]] = []
    tries = 0
    while len(exps) < nterms and tries < 20:
        tries += 1
        e = [(ch.below(4) if small else _exp_value(ch)) if ch.chance(0.7) else 0 for _ in range(nv)]
        if not small and nv >= 2 and ch.chance(0.12):
            # adjacent key characters whose latin-1 bytes form one valid UTF-8 sequence (lead 0xC2-0xDF, continuation 0x80-0xBF)
            at = ch.below(nv - 1)
            e[at], e[at + 1] = ch.between(0xC2, 0xDF) - 59, ch.between(0x80, 0xBF) - 59
        if e not in exps:
            exps.append(e)
    if exps and nv >= 2 and not small and ch.chance(0.35):
        # distinct tuples that differ in a single coordinate only (the hardest ones to keep apart)
        base = list(exps[ch.below(len(exps))])
        j = ch.choice([0, 0, nv - 1, ch.below(nv)])
        twin = list(base)
        twin[j] = base[j] + ch.choice([1, 2, 65536, 4096]) if ch.chance(0.7) else 0
        if twin not in exps:
            exps.append(twin)
    return {"exponents": exps, "coefficients": [ch.choice([-3, -2, -1, 1, 2, 3]) for _ in exps]}


STAGES = ["struct", "align", "mul", "pow", "deriv", "eval1", "evalpart", "swap", "pickle", "text", "text"]


def generate(rs: int, tier: str, index: int) -> dict:
    ch = core.Chooser(rs, "plan")
    nwin = MAXEXP // WINDOW + 1
    if tier == "thorough" and index < nwin:
        return {"property": ID, "run_seed": rs, "tier": tier, "prelude": prelude.gen_prelude(core.Chooser(rs, "prelude")), "steps": [{"id": 0, "k": "range", "start": index * WINDOW, "count": WINDOW}]}
    if tier == "thorough" and index < nwin + 601:
        return {"property": ID, "run_seed": rs, "tier": tier, "prelude": prelude.gen_prelude(core.Chooser(rs, "prelude")), "steps": [{"id": 0, "k": "mulrow", "b": index - nwin, "top": 600}]}
    if tier == "quick" and index < 40:
        starts = [0, 40, 100, 180, 54000, 55200, 57200, 65400, 130000, 1112100]
        if index < 10:
            return {"property": ID, "run_seed": rs, "tier": tier, "prelude": prelude.gen_prelude(core.Chooser(rs, "prelude")), "steps": [{"id": 0, "k": "range", "start": starts[index], "count": 400}]}
        return {"property": ID, "run_seed": rs, "tier": tier, "prelude": prelude.gen_prelude(core.Chooser(rs, "prelude")), "steps": [{"id": 0, "k": "mulrow", "b": (index - 10) * 20 + ch.below(20), "top": 600}]}
    if ch.chance(0.03):
        # powers whose exponent cannot be represented at all (a*n beyond the code point range, up to beyond 2**32): must raise
        e, n = ch.choice([65536, 65537, 70000, 131072, 1000, 1100000]), ch.choice([4099, 2053, 1031, 4099])  # (every unit of n costs one multiplication)
        if ch.sub("wrap").chance(0.5):
            # a product of exponent and power beyond 2**32: the chain of multiplications stops with an error at its
            # second step (the key character no longer exists), so a large n costs nothing
            e, n = ch.sub("wrap").choice([1100000, 1050000, 700001, 600000]), ch.sub("wrap").choice([4099, 8209, 65537, 7159])
        return {"property": ID, "run_seed": rs, "tier": tier, "prelude": prelude.gen_prelude(core.Chooser(rs, "prelude")),
                "steps": [{"id": 0, "k": "journey", "names": [ch.choice(["q0", "q3"])], "start": {"exponents": [[e]], "coefficients": [ch.choice([1, 1, -1, 2])]},
                           "stages": [{"stage": "pow", "n": n, "observe": False}]}]}
    nv = ch.weighted([(3, 1), (3, 2), (3, 3), (1, 4), (1, 5)])
    names = model.gen_names(ch.sub("n"), nv, nv)
    start = _gen_terms(ch.sub("t"), nv, ch.between(1, 3))
    stages = []
    for i in range(ch.between(2, 5)):
        c = ch.sub("s", i)
        kind = c.choice(STAGES)
        st: Dict[str, Any] = {"stage": kind}
        if kind in ("align", "mul"):
            st["partner"] = _gen_terms(c.sub("p"), nv, c.between(1, 2), small=c.chance(0.4))
            st["subset_names"] = c.chance(0.4)  # the partner lists only the indeterminates it uses (another names tuple)
        if kind == "pow":
            st["n"] = c.choice([2, 2, 3])
            if c.sub("ntype").chance(0.3):
                st["n_type"] = c.sub("ntype").choice(["int64", "int8", "uint8", "uint64", "0d"])  # the power arrives as a numpy scalar / 0-d array
            cl = c.sub("nlist")
            if "n_type" not in st and cl.chance(0.3):
                # one base, a whole array of powers (p ** [3, 1, 2]): element i is the i-th power
                st["n_list"] = [cl.choice([0, 1, 2, 3]) for _ in range(cl.between(3, 4))]
                st["n_at"] = cl.below(len(st["n_list"]))
                st["n_list"][st["n_at"]] = st["n"]
                st["n_list_2d"] = cl.chance(0.3) and len(st["n_list"]) == 4
            if c.chance(0.25):
                st["n"] = c.choice([4099, 2053, 1031, 4099])  # only used on single-term bases whose result is unrepresentable
        if kind == "struct":
            st["permute"] = c.chance(0.5)  # a multi-field index of the raw view: field order differs from memory order
        if kind == "evalpart":
            # numbers for some indeterminates, the others stay: terms that differed only there must merge
            k = c.between(1, nv - 1) if nv >= 2 else 0
            st["vars"] = sorted(c.sample(list(range(nv)), k)) if k else []
            st["vals"] = [c.choice([1, 1, 2]) for _ in st["vars"]]
        if kind == "deriv":
            st["var"] = c.below(nv)
            st["by"] = c.choice(["name", "index", "poly"])
            if c.sub("second").chance(0.35):
                st["var2"] = c.sub("second").below(nv)  # several differentiation variables in one call
        if kind in ("deriv", "mul", "pow", "align", "struct", "pickle"):
            # observe: check the stage's result but go on with the *same object* (an earlier call must not have touched it)
            st["observe"] = c.chance(0.5)
        if kind in ("struct", "align", "mul", "pow", "deriv", "eval1", "evalpart", "pickle") and c.sub("abort").chance(0.12):
            st["abort_first"] = c.sub("abort").below(100000)  # the same request, made once before and aborted part-way
        if kind == "pickle":
            st["protocol"] = c.below(6)
            st["as_array"] = c.sub("arr").chance(0.5)
            st["composed"] = c.sub("arr").chance(0.4)
        if kind == "text":
            st.update({"target": c.choice(["simtext", "simbytes", "simbytes", "path_str", "pathlike"]), "locale": c.choice(["utf-8", "latin-1", "ascii"]),
                       "fault": c.choice([None, None, None, "write"]), "u": c.u64(),
                       "encoding": c.choice([None, None, None, "latin-1", "utf-8", "ascii", "utf-16"])})
        stages.append(st)
    first_part = next((st for st in stages if st["stage"] == "evalpart" and st["vars"]), None)
    if first_part is not None and ch.sub("twin").chance(0.7):
        ct = ch.sub("twin")
        base = list(start["exponents"][ct.below(len(start["exponents"]))])
        for i in first_part["vars"]:
            base[i] = base[i] + ct.between(1, 3) if ct.chance(0.7) else base[i]
        if base not in start["exponents"]:
            start["exponents"].append(base)
            start["coefficients"].append(ct.choice([1, 2, 3]))
    journey = {"id": 0, "k": "journey", "names": names, "start": start, "stages": stages}
    co = ch.sub("journey-env")
    if co.chance(0.25):
        # the statement says nothing about the retain options: monomials must not be confused under any of them
        journey["options"] = {"retain_names": co.chance(0.3), "retain_coefficients": co.chance(0.5)}
    if co.chance(0.3):
        journey["exp_layout"] = co.choice(["F", "narrow", "narrow"])
    cd = ch.sub("journey-drop")
    if nv >= 2 and cd.chance(0.08):
        # names stored out of alphabetical order, two differentiation variables, and the first differentiation removes
        # its indeterminate from every term; under retain_names=False the intermediate result is re-laid on other columns
        order = cd.shuffle(list(range(nv)))
        if order == sorted(order):
            order = order[::-1]
        journey["names"] = [names[i] for i in order]
        v1 = cd.below(nv)
        v2 = (v1 + 1 + cd.below(nv - 1)) % nv
        rows, coefs = [], []
        for e, c in zip(start["exponents"], start["coefficients"]):
            e = list(e)
            e[v1] = 1
            if e[v2] == 0:
                e[v2] = cd.between(1, 3)
            if e not in rows:
                rows.append(e)
                coefs.append(c)
        journey["start"] = {"exponents": rows, "coefficients": coefs}
        journey["options"] = {"retain_names": False, "retain_coefficients": cd.chance(0.3)}
        journey["stages"] = [{"stage": "deriv", "var": v1, "var2": v2, "by": cd.choice(["name", "index", "poly"]), "observe": False}] + stages[:2]
    cm = ch.sub("journey-mem")
    if cm.chance(0.3):
        # narrower coefficient types take other writers inside numpoly; and what a fresh buffer holds before it is
        # written (HeapSeam) must never show up as a term
        journey["coef_dtype"] = cm.choice(["int32", "int32", "int16"])
    if cm.chance(0.3):
        journey["fill"] = cm.choice(["a5", "ff", "stale", "prng"])
    return {"property": ID, "run_seed": rs, "tier": tier, "prelude": prelude.gen_prelude(core.Chooser(rs, "prelude")), "steps": [journey]}


# ---------------------------------------------------------------------------


def _to_model(terms: dict) -> Dict[tuple, int]:
    return {tuple(e): c for e, c in zip(terms["exponents"], terms["coefficients"])}


def _build(m: Dict[tuple, int], names: List[str]) -> Any:
    import numpoly

    exps = [list(k) for k in m]
    matrix = numpy.array(exps, dtype=numpy.int64).reshape(len(exps), len(names))
    if _LAYOUT[0] == "F":
        matrix = numpy.asfortranarray(matrix)  # the same matrix, stored column by column
    elif _LAYOUT[0] == "narrow" and matrix.size and matrix.min() >= 0:
        matrix = matrix.astype(numpy.min_scalar_type(int(matrix.max())))  # the smallest unsigned type that holds the exponents
    return numpoly.polynomial_from_attributes(matrix, [numpy.array(v, dtype=_CDTYPE[0]) for v in m.values()], tuple(names), retain_coefficients=True, retain_names=True)


_LAYOUT = ["C"]
_CDTYPE: List[Any] = [None]
_LIMIT = {None: 2 ** 62, "int32": 2 ** 30, "int16": 2 ** 14}


def _build_subset(m: Dict[tuple, int], names: List[str]) -> Any:
    """The same polynomial, built over the indeterminates it actually uses only."""
    used = [j for j in range(len(names)) if any(k[j] for k in m)] or [0]
    return _build({tuple(k[j] for j in used): v for k, v in m.items()}, [names[j] for j in used])


def _read(p: Any, names: List[str]) -> Dict[tuple, int]:
    """{exponent tuple over `names`: coefficient} of a 0-d polynomial, zero terms dropped."""
    pn = list(p.names)
    out: Dict[tuple, int] = {}
    for e, c in zip(numpy.asarray(p.exponents).tolist(), p.coefficients):
        c = numpy.asarray(c)
        if c.shape != ():
            raise core.Violation("shape", "journey", f"coefficient shape {c.shape} for a 0-d polynomial")
        v = c.item()
        if v == 0:
            continue
        full = [0] * len(names)
        for n, k in zip(pn, e):
            if n in names:
                full[names.index(n)] = int(k)
            elif k:
                raise core.Violation("monomial-set", "journey", f"unknown indeterminate {n} with exponent {k}")
        key = tuple(full)
        if key in out:
            raise core.Violation("monomial-set", "journey", f"duplicate monomial {key}")
        out[key] = v
    return out


class Runner:
    def __init__(self, plan: dict):
        self.plan = plan
        self.rs = plan["run_seed"]
        self.violations: List[dict] = []
        self.events: List[Any] = []
        self.stats: Dict[str, int] = {}
        self.sigs: set = set()

    def bump(self, key: str, n: int = 1) -> None:
        self.stats[key] = self.stats.get(key, 0) + n

    def violate(self, clause: str, op: str, sid: Any, detail: str, where: Optional[dict] = None) -> None:
        rec = core.Violation(clause, op, detail[:500], where or {}, sid).record()
        if not any(core.vclass(r) == core.vclass(rec) for r in self.violations):
            self.violations.append(rec)
        self.events.append(["violation", sid, clause, op])

    # -- range sweep -----------------------------------------------------------
    def do_range(self, step: dict) -> None:
        import numpoly

        sid = step["id"]
        start, count = step["start"], step["count"]
        values = list(range(start, min(start + count, MAXEXP + 1)))
        safe = all(v < SAFE for v in values)
        # one polynomial per block of 200 exponents (distinct coefficients): encode, decode, struct view and back
        for lo in range(0, len(values), 200):
            block = values[lo: lo + 200]
            self.bump("decided")
            self.sigs.add(f"range|{block[0]}")
            try:
                p = numpoly.polynomial_from_attributes(numpy.array(block, dtype=numpy.int64).reshape(-1, 1), [numpy.array(v + 1) for v in block], ("q0",))
                got = {int(e[0]): int(numpy.asarray(c)) for e, c in zip(numpy.asarray(p.exponents).tolist(), p.coefficients)}
                q = numpoly.polynomial(p.values, names=p.names)
                got2 = {int(e[0]): int(numpy.asarray(c)) for e, c in zip(numpy.asarray(q.exponents).tolist(), q.coefficients)}
            except Exception as exc:  # noqa: BLE001
                if not (core.through_numpoly(exc, NUMPOLY_DIR) or isinstance(exc, (UnicodeError, ValueError, TypeError, OverflowError))):
                    raise
                if safe:
                    self.violate("small-exponents-work", "construct", sid, f"exponents {block[0]}..{block[-1]}: {type(exc).__name__}: {exc}", {"stage": "construct"})
                else:
                    self.bump("undecided:unrepresentable-exponent-raises")
                continue
            want = {v: v + 1 for v in block}
            if got != want:
                bad = [(k, got.get(k)) for k in want if got.get(k) != want[k]][:3] + [(k, v) for k, v in got.items() if k not in want][:3]
                self.violate("monomial-set", "construct", sid, f"exponents {block[0]}..{block[-1]} read back wrongly, e.g. {bad}", {"stage": "construct"})
            elif got2 != want:
                self.violate("monomial-set", "struct", sid, f"exponents {block[0]}..{block[-1]} through the raw structured view come back wrongly", {"stage": "struct"})
        self.events.append(["range", start, count])

    def do_mulrow(self, step: dict) -> None:
        import numpoly

        sid = step["id"]
        b, top = step["b"], step["top"]
        avals = list(range(0, top - b + 1))
        self.bump("decided")
        self.sigs.add(f"mulrow|{b}")
        try:
            p = numpoly.polynomial_from_attributes(numpy.array(avals, dtype=numpy.int64).reshape(-1, 1), [numpy.array(a + 1) for a in avals], ("q0",))
            q = numpoly.polynomial_from_attributes([[b]], [numpy.array(2)], ("q0",))
            r = p * q
            got = {int(e[0]): int(numpy.asarray(c)) for e, c in zip(numpy.asarray(r.exponents).tolist(), r.coefficients) if int(numpy.asarray(c)) != 0}
        except Exception as exc:  # noqa: BLE001
            if not (core.through_numpoly(exc, NUMPOLY_DIR) or isinstance(exc, (UnicodeError, ValueError, KeyError))):
                raise
            self.violate("small-exponents-work", "mul", sid, f"(sum q0**a, a<={top - b}) * 2*q0**{b}: {type(exc).__name__}: {exc}", {"stage": "mul"})
            return
        want = {a + b: 2 * (a + 1) for a in avals}
        if got != want:
            bad = [(k, got.get(k), want[k]) for k in want if got.get(k) != want[k]][:3]
            self.violate("monomial-set", "mul", sid, f"(c_a*q0**a)*(2*q0**{b}) for a<={top - b}: (exponent, got, expected) e.g. {bad}", {"stage": "mul"})
        self.events.append(["mulrow", b])

    # -- journey -----------------------------------------------------------------
    @staticmethod
    def _raw_stage(p: Any, st: dict, names: List[str], nv: int) -> Any:
        """The bare library call of a stage (no bookkeeping), for the aborted first attempt."""
        import numpoly

        kind = st["stage"]
        if kind == "struct":
            return numpoly.polynomial(p.values, names=p.names)
        if kind in ("align", "mul"):
            partner = (_build_subset if st.get("subset_names") else _build)(_to_model(st["partner"]), names)
            return numpoly.align_polynomials(p, partner) if kind == "align" else p * partner
        if kind == "pow":
            return p ** min(st["n"], 3)
        if kind == "deriv":
            return numpoly.derivative(p, names[st["var"]])
        if kind == "eval1":
            return p(*([1] * nv))
        if kind == "evalpart":
            return p(**{names[i]: 1 for i in st.get("vars", [])}) if st.get("vars") else None
        if kind == "pickle":
            return pickle.loads(pickle.dumps(p, protocol=st["protocol"]))
        return None

    def do_journey(self, step: dict) -> None:
        import numpoly

        sid = step["id"]
        names = list(step["names"])
        nv = len(names)
        m = _to_model(step["start"])
        trail = []
        retaining = bool((step.get("options") or {}).get("retain_coefficients"))  # (repeated multiplication keeps every intermediate term then)

        def big(mm: Dict[tuple, int]) -> int:
            return max([max(k) for k in mm] or [0])

        try:
            p = _build(m, names)
            have = _read(p, names)
        except core.Violation as v:
            self.violate(v.clause, "construct", sid, v.detail, {"stage": "construct"})
            return
        except Exception as exc:  # noqa: BLE001
            if big(m) < SAFE:
                self.violate("small-exponents-work", "construct", sid, f"{m}: {type(exc).__name__}: {exc}", {"stage": "construct"})
            else:
                self.bump("undecided:stage-raises-large-exponent")
            return
        if have != m:
            self.violate("monomial-set", "construct", sid, f"built {m}, read back {have}", {"stage": "construct"})
            return
        for idx, st in enumerate(step["stages"]):
            kind = st["stage"]
            self.bump(f"op:{kind}")
            want: Optional[Dict[tuple, int]] = None
            scalar_want = None
            env_tag = ""
            if st.get("abort_first") is not None and big(m) <= 600:
                seams.interrupted_first(lambda: self._raw_stage(p, st, names, nv), NUMPOLY_DIR, st["abort_first"], self.stats)
            try:
                if kind == "struct":
                    raw = p.values
                    if st.get("permute") and len(p.keys) > 1:
                        order = core.Chooser(self.rs, "permute", idx).shuffle([str(k) for k in p.keys])
                        raw = raw[order]
                    res = numpoly.polynomial(raw, names=p.names)
                    want = m
                elif kind == "align":
                    partner = (_build_subset if st.get("subset_names") else _build)(_to_model(st["partner"]), names)
                    res, _ = numpoly.align_polynomials(p, partner)
                    want = m
                elif kind == "mul":
                    pm = _to_model(st["partner"])
                    partner = (_build_subset if st.get("subset_names") else _build)(pm, names)
                    res = p * partner
                    want = {}
                    for k1, c1 in m.items():
                        for k2, c2 in pm.items():
                            key = tuple(a + b for a, b in zip(k1, k2))
                            want[key] = want.get(key, 0) + c1 * c2
                    want = {k: v for k, v in want.items() if v}
                elif kind == "pow":
                    n_pow = st["n"]
                    if n_pow > 3:
                        top = max(max(k) for k in m) if m else 0
                        if len(m) != 1 or nv != 1 or top * n_pow <= MAXEXP or top < 70:
                            n_pow = 2  # the long chain of multiplications is only affordable when it must fail early
                    nt = st.get("n_type") if n_pow <= 3 else None
                    def model_pow(n_: int) -> Dict[tuple, int]:
                        acc: Dict[tuple, int] = {(0,) * nv: 1}
                        for _ in range(n_):
                            nxt: Dict[tuple, int] = {}
                            for k1, c1 in acc.items():
                                for k2, c2 in m.items():
                                    key = tuple(a + b for a, b in zip(k1, k2))
                                    nxt[key] = nxt.get(key, 0) + c1 * c2
                            acc = {k: v for k, v in nxt.items() if v}
                        return acc

                    if st.get("n_list") and n_pow == st["n"] and n_pow <= 3:
                        ns = list(st["n_list"])
                        arr = p ** (numpy.array(ns).reshape(2, 2) if st.get("n_list_2d") else ns)
                        self.bump("probe:array_of_powers")
                        flat = arr.ravel() if isinstance(arr, numpoly.ndpoly) else None
                        if flat is None or flat.shape != (len(ns),):
                            raise core.Violation("shape", "pow", f"p ** {ns} has shape {getattr(arr, 'shape', None)}")
                        lim = _LIMIT[step.get("coef_dtype")]
                        for i_, n_ in enumerate(ns):
                            w_ = model_pow(n_)
                            if i_ != st["n_at"] and all(abs(v) < lim for v in w_.values()):
                                h_ = _read(flat[i_], names)
                                if h_ != w_:
                                    raise core.Violation("monomial-set", "pow", f"element {i_} of p ** {ns} reads {h_}, expected p ** {n_} = {w_}")
                        res = flat[st["n_at"]]
                    else:
                        res = p ** (n_pow if not nt else numpy.array(n_pow) if nt == "0d" else numpy.dtype(nt).type(n_pow))
                    st = dict(st, n=n_pow)
                    want = model_pow(st["n"])
                elif kind == "deriv":
                    i = st["var"]
                    var: Any = names[i] if st["by"] == "name" else i if st["by"] == "index" else numpoly.polynomial_from_attributes([[int(j == i) for j in range(nv)]], [1], tuple(names))
                    diffvars = [var]
                    order = [i]
                    if st.get("var2") is not None:
                        j = st["var2"]
                        diffvars.append(names[j] if st["by"] == "name" else j if st["by"] == "index" else numpoly.polynomial_from_attributes([[int(t == j) for t in range(nv)]], [1], tuple(names)))
                        order.append(j)
                    res = numpoly.derivative(p, *diffvars)
                    want = dict(m)
                    for i in order:
                        nxt = {}
                        for k, c in want.items():
                            if k[i] > 0:
                                key = k[:i] + (k[i] - 1,) + k[i + 1:]
                                nxt[key] = nxt.get(key, 0) + c * k[i]
                        want = nxt
                elif kind == "eval1":
                    at = 2 if max((sum(k) for k in m), default=0) <= 55 else 1  # (1 cannot tell a power from another)
                    res = p(*([numpy.int64(at) if idx % 2 else at] * nv))
                    scalar_want = sum(c * at ** sum(k) for k, c in m.items())
                    if sum(abs(c) * at ** sum(k) for k, c in m.items()) >= 2 ** 62:
                        self.bump("undecided:coefficient-would-overflow-int64")
                        return
                elif kind == "evalpart":
                    kept_top = max((k[i] for k in m for i in range(nv) if i not in st["vars"]), default=0)
                    if not st.get("vars") or kept_top > (1 if retaining else 600):
                        continue  # a kept indeterminate is raised to its power by repeated multiplication
                    vals = [v if all(k[i] <= 40 for k in m) else 1 for i, v in zip(st["vars"], st["vals"])]
                    res = p(**{names[i]: v for i, v in zip(st["vars"], vals)})
                    want = {}
                    for k, c in m.items():
                        key = list(k)
                        for i, v in zip(st["vars"], vals):
                            c = c * v ** k[i]
                            key[i] = 0
                        want[tuple(key)] = want.get(tuple(key), 0) + c
                    want = {k: c for k, c in want.items() if c != 0}
                elif kind == "swap":
                    if nv < 2 or big(m) > (1 if retaining else 100):
                        continue  # substitution raises the symbol to the power by repeated multiplication
                    a, b = numpoly.symbols(names[0]), numpoly.symbols(names[1])
                    res = p(**{names[0]: b, names[1]: a})
                    want = {}
                    for k, c in m.items():
                        key = (k[1], k[0]) + k[2:]
                        want[key] = want.get(key, 0) + c
                elif kind == "pickle":
                    res = pickle.loads(pickle.dumps(p, protocol=st["protocol"]))
                    want = m
                    if st.get("as_array") or st.get("composed"):
                        # the same monomials inside an array of two elements (m and 2*m): built from attributes, or composed
                        # from two scalar polynomials of which the second stores its terms in the opposite order
                        keys = list(m)
                        if st.get("composed"):
                            second = _build({k: 2 * m[k] for k in keys[::-1]}, names)
                            arr = numpoly.polynomial([p, second])
                        else:
                            arr = numpoly.polynomial_from_attributes(numpy.array([list(k) for k in keys], dtype=numpy.int64).reshape(len(keys), nv),
                                                                     [numpy.array([m[k], 2 * m[k]]) for k in keys], tuple(names), retain_coefficients=True, retain_names=True)
                        back = pickle.loads(pickle.dumps(arr, protocol=st["protocol"])) if st.get("as_array") else arr
                        for pos, factor in ((0, 1), (1, 2)):
                            have_el = _read(back[pos], names)
                            want_el = {k: factor * v for k, v in m.items()}
                            if have_el != want_el:
                                raise core.Violation("monomial-set", kind, f"stage {idx} {'pickled ' if st.get('as_array') else ''}{'composed ' if st.get('composed') else ''}array element {pos}: got {have_el}, expected {want_el}", {"stage": kind, "array": True})
                elif kind == "text":
                    env_tag = f"{st['target']}/{st['locale']}/{st.get('encoding')}"
                    res = self._text_stage(p, st)
                    if res is None:
                        self.events.append([idx, kind, "save/load raised"])
                        self.bump("decided")
                        continue  # an error was raised: allowed for the text stage; the journey goes on with p
                    want = m
                else:
                    raise core.HarnessError(kind)
            except core.HarnessError:
                raise
            except core.Violation as v:
                self.bump("decided")
                self.violate(v.clause, kind, sid, v.detail, v.where or {"stage": kind})
                return
            except Exception as exc:  # noqa: BLE001
                if not (core.through_numpoly(exc, NUMPOLY_DIR) or isinstance(exc, (UnicodeError, ValueError, KeyError, TypeError, OverflowError))):
                    raise
                self.bump("decided")
                limit = big(m) if kind not in ("mul", "pow") else big(want) if want else big(m) * max(3, int(st.get("n", 3)))
                if limit < SAFE and kind != "text":
                    self.violate("small-exponents-work", kind, sid, f"stage {idx} {kind} on {m}: {type(exc).__name__}: {exc}", {"stage": kind})
                else:
                    self.bump("undecided:stage-raises-large-exponent")
                self.events.append([idx, kind, "raised", type(exc).__name__])
                return
            if want is not None and any(abs(v) >= _LIMIT[step.get("coef_dtype")] for v in want.values()):
                self.bump("undecided:coefficient-would-overflow-int64")
                return
            self.bump("decided")
            if big(m) >= 69:
                self.sigs.add(f"{kind}|{sorted(m)}|{env_tag}")
            if scalar_want is not None:
                val = numpy.asarray(res)
                if val.shape != () or val.item() != scalar_want:
                    self.violate("evaluation", kind, sid, f"p(1,..,1) = {val.tolist()} expected {scalar_want} for {m}", {"stage": kind})
                self.events.append([idx, kind, int(val.item()) if val.shape == () else -1])
                continue
            try:
                if not isinstance(res, numpoly.ndpoly):
                    # a constant result of evaluation
                    have = {(0,) * nv: numpy.asarray(res).item()} if numpy.asarray(res).item() != 0 else {}
                else:
                    have = _read(res, names)
            except core.Violation as v:
                self.violate(v.clause, kind, sid, f"stage {idx} {kind} [{env_tag}] on {m}: {v.detail}", {"stage": kind})
                return
            if have != want:
                self.violate("monomial-set", kind, sid, f"stage {idx} {kind} [{env_tag}] on {m}: got {have}, expected {want}", {"stage": kind, "target": st.get("target", "")} if kind == "text" else {"stage": kind})
                return
            self.events.append([idx, kind, sorted(map(list, have.items()))])
            trail.append(kind)
            if st.get("observe"):
                # the object that went into the stage must still read as the same polynomial
                try:
                    still = _read(p, names)
                except core.Violation as v:
                    still = {"violation": v.detail}
                if still != m:
                    self.violate("monomial-set", kind, sid, f"after stage {idx} {kind} the operand itself reads {still}, it was {m}", {"stage": kind, "operand": True})
                    return
                continue
            if kind in ("mul", "pow", "deriv", "swap", "evalpart") and isinstance(res, numpoly.ndpoly) and want:
                m = want
                p = _build(m, names) if tuple(res.names) != tuple(names) else res

    def _text_stage(self, p: Any, st: dict) -> Any:
        """savetxt -> loadtxt through the FileSeam; None if either side raised."""
        import numpoly

        kind = st["target"]
        with fileseam.FileEnv(locale=st["locale"]) as env:
            faults = fileseam.Faults()
            if st.get("fault") == "write":
                faults = fileseam.Faults(write_fail_at=1 + st["u"] % 3)
                self.bump("fault:write_error.configured")
            env.set_faults(faults)
            if kind == "simtext":
                target: Any = fileseam.SimText(faults=faults)
            elif kind == "simbytes":
                target = fileseam.SimBytes(faults=faults)
            elif kind == "pathlike":
                import pathlib

                target = pathlib.Path(env.path("j.txt"))
            else:
                target = env.path("j.txt")
            try:
                numpoly.savetxt(target, p, fmt="%d", **({"encoding": st["encoding"]} if st.get("encoding") else {}))
            except (OSError, UnicodeError, ValueError, TypeError) as exc:
                if faults.fired:
                    self.bump("fault:write_error.fired")
                self.bump("probe:text_save_raised_" + type(exc).__name__)
                return None
            if faults.fired:
                self.bump("probe:write_error_swallowed")
            if any(ord(ch) > 255 for key in p.keys for ch in str(key)):
                self.bump("probe:key_character_outside_latin1_written")
            env.set_faults(fileseam.Faults())
            if kind == "simtext":
                reader: Any = fileseam.SimText(target.getvalue())
            elif kind == "simbytes":
                reader = fileseam.SimBytes(target.getvalue())
            else:
                reader = target
            try:
                return numpoly.loadtxt(reader, dtype=int)
            except (OSError, UnicodeError, ValueError, AssertionError, KeyError) as exc:
                self.bump("probe:text_load_raised_" + type(exc).__name__)
                return None

    def run(self) -> None:
        for step in self.plan["steps"]:
            self.bump(f"op:{step['k']}")
            if step["k"] == "range":
                self.do_range(step)
            elif step["k"] == "mulrow":
                self.do_mulrow(step)
            else:
                import numpoly

                import contextlib

                _LAYOUT[0] = step.get("exp_layout", "C")
                _CDTYPE[0] = step.get("coef_dtype")
                heap = seams.Env(core.H(self.rs, "heap"), sort="stable", fill=step["fill"]) if step.get("fill") else contextlib.nullcontext()
                try:
                    with heap, numpoly.global_options(**(step.get("options") or {})):
                        self.do_journey(step)
                finally:
                    _LAYOUT[0] = "C"
                    _CDTYPE[0] = None


def execute(plan: dict) -> dict:
    import logging
    import warnings

    runner = Runner(plan)
    logging.disable(logging.CRITICAL)
    try:
        with warnings.catch_warnings():
            warnings.simplefilter("ignore")
            with numpy.errstate(all="ignore"):
                prelude.run_prelude(plan.get("prelude"), runner.stats)
                runner.run()
    finally:
        logging.disable(logging.NOTSET)
    return {"violations": runner.violations, "events": runner.events, "stats": runner.stats, "sigs": sorted(runner.sigs)}


def simplify(plan: dict):
    if plan.get("prelude"):
        yield dict(plan, prelude=None)
        for i in range(len(plan["prelude"])):
            yield dict(plan, prelude=plan["prelude"][:i] + plan["prelude"][i + 1:] or None)
    step = plan["steps"][0]
    if step["k"] != "journey":
        if step["k"] == "range" and step["count"] > 1:
            half = step["count"] // 2
            yield dict(plan, steps=[dict(step, count=half)])
            yield dict(plan, steps=[dict(step, start=step["start"] + half, count=step["count"] - half)])
        return
    stages = step["stages"]
    for key in ("options", "exp_layout"):
        if step.get(key):
            yield dict(plan, steps=[{k: v for k, v in step.items() if k != key}])
    for i in range(len(stages)):
        yield dict(plan, steps=[dict(step, stages=stages[:i] + stages[i + 1:])])
    start = step["start"]
    n = len(start["exponents"])
    if n > 1:
        for i in range(n):
            yield dict(plan, steps=[dict(step, start={"exponents": start["exponents"][:i] + start["exponents"][i + 1:], "coefficients": start["coefficients"][:i] + start["coefficients"][i + 1:]})])
    for i, e in enumerate(start["exponents"]):
        for j, v in enumerate(e):
            if v:
                ne = list(e)
                ne[j] = 0
                if ne not in start["exponents"]:
                    yield dict(plan, steps=[dict(step, start=dict(start, exponents=start["exponents"][:i] + [ne] + start["exponents"][i + 1:]))])
    for i, st in enumerate(stages):
        if st.get("fault"):
            yield dict(plan, steps=[dict(step, stages=stages[:i] + [dict(st, fault=None)] + stages[i + 1:])])
        if st.get("locale") not in (None, "utf-8"):
            yield dict(plan, steps=[dict(step, stages=stages[:i] + [dict(st, locale="utf-8")] + stages[i + 1:])])
