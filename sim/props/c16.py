"""C16 — str/repr (and sympy export) denote exactly the polynomial.

The printed term order follows glexsort(display_graded, display_reverse)
(SortSeam) under the display option state (reached through option histories).
Oracle: an independent reader of the text over a dictionary polynomial, plus
the documented monomial order of the printed terms.
"""
from __future__ import annotations

import re
from typing import Any, Dict, List, Optional, Tuple

import numpy

from .. import prelude, core, model, seams
from ..model import gen_poly
from ..runner import NUMPOLY_DIR

ID = "C16"
LEVEL = "exploration"
POLICIES = ["stable", "reversed", "rotated", "prng"]
RULE = (
    "C01-space arrays (coefficients +-1, negative first/last terms, floats like 1e-05, complex and bool coefficients, other "
    "dtypes, names up to q12, shapes up to 3-d) x all 8 display_graded/reverse/inverse settings x exponent signs {**,^} x "
    "multiply signs {*, ' * ', '·'} (reached directly / nested / set_options inside a block) x tie policies (stable + one seeded "
    "other; thorough: all four); str and repr are read back by an independent tokenizer/evaluator. Distinct non-trivial = "
    "distinct (case, display setting, policy) with >=2 printed terms of equal total degree in some element or a coefficient "
    "that needs sign/unit handling (negative, +-1, complex)."
)
COMPONENTS = {
    "real": ["numpoly.array_str/array_repr/_to_string, to_sympy, polynomial(sympy)", "numpoly.option", "numpy.array2string", "sympy"],
    "stand_ins": ["tie order of numpy's unstable argsort (module-level calls inside numpoly)"],
}
ASSUMPTIONS = [
    "numpy print options at their defaults (verified at the start of every run)",
    "arrays below numpy's summarisation threshold (1000 elements)",
    "to_sympy clause checked under the default exponent/multiply signs (the text is eval'ed as Python)",
]


def setup() -> None:
    try:  # import once in the parent, before the workers fork
        import sympy  # noqa: F401
    except ImportError:
        pass


def budget(tier: str) -> int:
    return 3000 if tier == "quick" else 150000


DISPLAY_SIGNS = [("**", "*"), ("**", "*"), ("^", "*"), ("**", " * "), ("**", "·"), ("^", "·")]


def generate(rs: int, tier: str, index: int) -> dict:
    ch = core.Chooser(rs, "plan")
    kindc = ch.weighted([(4, "int"), (3, "float"), (2, "complex"), (1, "bool")])
    names = model.gen_names(ch.sub("n"), 1, 3)
    sympy_case = ch.chance(0.12)
    shape = () if sympy_case else ch.choice([(), (), (2,), (3,), (2, 2), (2, 3), (1, 2, 2), (12,), (2, 7), (9, 2), (3, 2, 8)])
    if sympy_case and kindc in ("complex", "bool"):
        kindc = "int"
    lit = gen_poly(ch.sub("p"), names=names, shape=shape, kind=kindc, same_degree=ch.choice([None, None, 3, 5, 9]), max_exp=ch.choice([3, 3, 12]))
    crd = ch.sub("doubles")
    if kindc == "float" and crd.chance(0.7 if sympy_case else 0.1):
        # arbitrary doubles (all 53 bits in use): their shortest decimal form has 16-17 digits, and reading it back in
        # two rounding steps instead of one lands on a neighbouring double now and then
        lit["coefficients"] = [[(crd.below(2**53) + 1) / 2**53 * crd.choice([1.0, 1.0, 1000.0, 1e-3, -1.0, 1e10, 1e-7, 1e18, 1e-30]) for _ in col] for col in lit["coefficients"]]
    # units and negative leading/trailing terms
    for col in lit["coefficients"]:
        for j in range(len(col)):
            if ch.chance(0.25) and kindc in ("int", "float"):
                col[j] = ch.choice([1, -1]) if kindc == "int" else ch.choice([1.0, -1.0])
            elif ch.chance(0.2) and kindc == "complex":
                col[j] = ch.choice([[1.0, 0.0], [-1.0, 0.0], [0.0, 1.0], [0.0, -1.0], [-0.0, -1.0], [-2.0, 0.0], [0.6, 0.8], [2.0, 1e-15], [0.0, 1e-20], [-1.5, -3e-16]])
    cn1 = ch.sub("nearly-one")
    if kindc in ("float", "complex") and cn1.chance(0.12):
        # coefficients a hair away from +1 / -1 (the values an omitted coefficient stands for): close is not equal
        near = [1 + 1e-9, 1 - 1e-7, -(1 - 1e-7), -(1 + 1e-9), 1 + 2.220446049250313e-16, -(1 - 1.1102230246251565e-16), 1.000001, -0.9999999]
        for col in lit["coefficients"]:
            for j in range(len(col)):
                if cn1.chance(0.5):
                    v = cn1.choice(near)
                    col[j] = v if kindc == "float" else [v, cn1.choice([0.0, 0.0, 2e-6, -1e-9])]
    if kindc == "int" and not sympy_case and ch.chance(0.2):
        dt = ch.choice(["int8", "int32", "uint8", "uint16", "uint64"])
        lit["dtype"] = dt
        if dt.startswith("u"):
            lit["coefficients"] = [[abs(v) for v in col] for col in lit["coefficients"]]
        elif ch.sub("lowest").chance(0.5):
            # the most negative value of the type (the one number whose magnitude the type cannot hold)
            low = int(numpy.iinfo(dt).min)
            lit["coefficients"] = [[(low if v < 0 and ch.sub("lowest", i, j).chance(0.5) else v) for j, v in enumerate(col)] for i, col in enumerate(lit["coefficients"])]
    if kindc == "float" and not sympy_case and ch.chance(0.15):
        lit["dtype"] = ch.choice(["float32", "float16"])
        lit["coefficients"] = [[float(numpy.dtype(lit["dtype"]).type(v)) for v in col] for col in lit["coefficients"]]
    if kindc == "complex" and ch.chance(0.15):
        lit["dtype"] = "complex64"
    cb = ch.sub("bigexp")
    if not sympy_case and cb.chance(0.12):
        # exponents whose bytes do not order like their values (256 against 3, 65536 against 255, ...)
        big = [255, 256, 257, 300, 511, 512, 513, 65535, 65536, 65537, 70000]
        seen = {tuple(e) for e in lit["exponents"]}
        for e in lit["exponents"]:
            if sum(e) and cb.chance(0.6):
                new = list(e)
                j = cb.below(len(new))
                new[j] = cb.choice(big)
                if tuple(new) not in seen:
                    seen.discard(tuple(e))
                    seen.add(tuple(new))
                    e[:] = new
    exp_sign, mul_sign = ("**", "*") if sympy_case else ch.choice(DISPLAY_SIGNS)
    display = {"display_graded": ch.chance(0.5), "display_reverse": ch.chance(0.5), "display_inverse": ch.chance(0.5),
               "display_exponent": exp_sign, "display_multiply": mul_sign}
    if kindc == "int" and lit["dtype"] == "int64" and ch.chance(0.15):
        # integers beyond 2**53 (not representable as float64) must print and read back exactly
        for col in lit["coefficients"]:
            for j in range(len(col)):
                if ch.chance(0.3):
                    col[j] = ch.choice([2**53 + 1, -(2**53) - 1, 2**63 - 1, -(2**63) + 1, 2**60 + 7, -(2**63)])
    other = {}
    if ch.chance(0.3):  # str/repr must denote the polynomial whatever else is configured
        other = {"retain_names": ch.chance(0.3), "retain_coefficients": ch.chance(0.5)}
    cnp = ch.sub("npprint")
    np_print = None
    if not sympy_case and cnp.chance(0.2):
        # numpy's own print settings (process-wide): none of these may change what the text denotes
        np_print = {k: v for k, v in {"linewidth": cnp.choice([20, 40, 75, 200]), "precision": cnp.choice([2, 4, 8, 17]), "sign": cnp.choice(["-", "+", " "]),
                                      "floatmode": cnp.choice(["maxprec", "fixed", "unique", "maxprec_equal"])}.items()
                    if cnp.chance(0.5)} or {"linewidth": 30}
    dec_prec = cnp.sub("decimal").choice([6, 3, 12]) if cnp.sub("decimal").chance(0.15) else None  # the thread's decimal context, lowered by earlier code
    cu = ch.sub("update")
    update = None
    if not sympy_case and cu.chance(0.15):
        cols = [list(col) for col in lit["coefficients"]]
        update = [col[1:] + col[:1] for col in cols[::-1]] if len(cols) > 1 or (cols and len(cols[0]) > 1) else None
        if update == cols:
            update = None
    abort = ch.below(100000) if ch.chance(0.2) else None  # an earlier print of the same array, with other settings, was interrupted part-way
    step = {"id": 0, "k": "sympy" if sympy_case else "text", "p": lit, "display": display, "other_options": other, "all_orders": ch.chance(0.3), "abort_first": abort, "np_print": np_print, "decimal_prec": dec_prec, "update_after_print": update,
            "reach": ch.weighted([(5, "direct"), (2, "nested"), (2, "set_inside")])}
    pols = POLICIES if tier == "thorough" else ["stable", ch.choice(POLICIES[1:])]
    return {"property": ID, "run_seed": rs, "tier": tier, "prelude": prelude.gen_prelude(core.Chooser(rs, "prelude")), "policies": pols, "steps": [step]}


def _decimal_precision(prec: Any) -> Any:
    import contextlib
    import decimal

    if not prec:
        return contextlib.nullcontext()
    return decimal.localcontext(decimal.Context(prec=prec))


# ---------------------------------------------------------------------------
# the independent reader

_TOKEN = re.compile(
    r"\s*(?:(?P<cpx>\([^()]*\))|(?P<num>(?:\d+\.?\d*(?:e[+-]?\d+)?|\.\d+|inf|nan)j?)|(?P<name>[A-Za-z_]\w*)|(?P<op>[+\-\x01\x02]))"
)


class ParseError(Exception):
    pass


def tokenize(text: str) -> List[Tuple[str, str]]:
    out = []
    pos = 0
    text = text.strip()
    while pos < len(text):
        m = _TOKEN.match(text, pos)
        if not m or m.end() == pos:
            raise ParseError(f"cannot tokenize {text[pos:pos + 20]!r} in {text!r}")
        pos = m.end()
        for kind in ("cpx", "num", "name", "op"):
            if m.group(kind) is not None:
                out.append((kind, m.group(kind)))
                break
    return out


def _number(kind: str, tok: str) -> Any:
    if kind == "cpx":
        return complex(tok.replace(" ", ""))
    if tok.endswith("j"):
        return complex(tok)
    if tok in ("inf", "nan"):
        return float(tok)
    if re.fullmatch(r"\d+", tok):
        return int(tok)
    return float(tok)


def parse_element(text: str, names: Tuple[str, ...]) -> Tuple[Dict[tuple, Any], List[tuple]]:
    """Evaluate one printed element over the dictionary polynomial ring.
    Returns ({exponent tuple: coefficient}, [monomials in printed order])."""
    toks = tokenize(text)
    pos = 0
    poly: Dict[tuple, Any] = {}
    order: List[tuple] = []
    if not toks:
        raise ParseError("empty element")
    first = True
    while pos < len(toks):
        sign = 1
        kind, tok = toks[pos]
        if kind == "op" and tok in "+-":
            sign = -1 if tok == "-" else 1
            pos += 1
        elif not first:
            raise ParseError(f"terms not joined by + or - in {text!r}")
        first = False
        coef: Any = 1
        expo = [0] * len(names)
        nfactors = 0
        while True:
            if pos >= len(toks):
                raise ParseError(f"dangling operator in {text!r}")
            kind, tok = toks[pos]
            if kind in ("num", "cpx"):
                coef = coef * _number(kind, tok)
                pos += 1
            elif kind == "name":
                if tok in ("True", "False"):
                    coef = coef * (tok == "True")
                    pos += 1
                else:
                    if tok not in names:
                        raise ParseError(f"unknown indeterminate {tok} in {text!r}")
                    power = 1
                    pos += 1
                    if pos < len(toks) and toks[pos] == ("op", "\x01"):
                        if pos + 1 >= len(toks) or toks[pos + 1][0] != "num":
                            raise ParseError(f"bad exponent in {text!r}")
                        power = _number("num", toks[pos + 1][1])
                        if not isinstance(power, int):
                            raise ParseError(f"non-integer exponent in {text!r}")
                        pos += 2
                    expo[names.index(tok)] += power
            else:
                raise ParseError(f"unexpected {tok!r} in {text!r}")
            nfactors += 1
            if pos < len(toks) and toks[pos] == ("op", "\x02"):
                pos += 1
                continue
            break
        key = tuple(expo)
        value = sign * coef
        poly[key] = poly.get(key, 0) + value
        order.append(key)
    return poly, order


def split_elements(text: str, exp_sign: str, mul_sign: str, is_repr: bool) -> List[str]:
    if is_repr:
        if not (text.startswith("polynomial(") and text.endswith(")")):
            raise ParseError(f"repr not wrapped in polynomial(...): {text!r}")
        text = text[len("polynomial("):-1]
    text = text.replace(exp_sign, "\x01").replace(mul_sign, "\x02")
    # complex numbers carry parentheses; protect them, then drop array brackets
    protected = []

    def keep(m: Any) -> str:
        protected.append(m.group(0))
        return f"\x03{len(protected) - 1}\x04"

    text = re.sub(r"\([^()\[\]]*\)", keep, text)
    text = text.replace("[", " ").replace("]", " ").replace(",", " ")
    parts = text.split()
    out = []
    for part in parts:
        out.append(re.sub(r"\x03(\d+)\x04", lambda m: protected[int(m.group(1))], part))
    return out


# ---------------------------------------------------------------------------


class reach_display:
    def __init__(self, how: str, display: dict, other: Optional[dict] = None):
        self.how, self.display = how, dict(display, **(other or {}))
        self.stack: List[Any] = []

    def __enter__(self) -> None:
        import numpoly

        d = self.display
        if self.how == "direct":
            cms = [numpoly.global_options(**d)]
        elif self.how == "nested":
            flipped = {k: (not v) for k, v in d.items() if isinstance(v, bool)}
            cms = [numpoly.global_options(**flipped), numpoly.global_options(**{k: v for k, v in d.items() if isinstance(v, bool)}),
                   numpoly.global_options(display_exponent=d["display_exponent"], display_multiply=d["display_multiply"])]
        else:
            cms = [numpoly.global_options(display_inverse=not d["display_inverse"])]
        for cm in cms:
            cm.__enter__()
            self.stack.append(cm)
        if self.how == "set_inside":
            numpoly.set_options(**d)

    def __exit__(self, *exc: Any) -> None:
        while self.stack:
            self.stack.pop().__exit__(None, None, None)


class Runner:
    def __init__(self, plan: dict):
        self.plan = plan
        self.rs = plan["run_seed"]
        self.violations: List[dict] = []
        self.events: List[Any] = []
        self.stats: Dict[str, int] = {}
        self.sigs: set = set()

    def bump(self, key: str, n: int = 1) -> None:
        self.stats[key] = self.stats.get(key, 0) + n

    def violate(self, clause: str, op: str, sid: Any, detail: str, where: Optional[dict] = None) -> None:
        rec = core.Violation(clause, op, detail[:500], where or {}, sid).record()
        if not any(core.vclass(r) == core.vclass(rec) for r in self.violations):
            self.violations.append(rec)
        self.events.append(["violation", sid, clause, op])

    def displays(self, step: dict) -> List[dict]:
        base = step["display"]
        if not step.get("all_orders"):
            return [base]
        out = []
        for g in (True, False):
            for r in (True, False):
                for i in (True, False):
                    out.append(dict(base, display_graded=g, display_reverse=r, display_inverse=i))
        return out

    def do_text(self, step: dict) -> None:
        sid = step["id"]
        try:
            p = model.build_poly(step["p"])
        except core.Undecided as exc:
            self.bump(f"undecided:{exc.reason}")
            return
        if step.get("update_after_print"):
            # history: the array was printed, then its coefficients were overwritten in place (same terms, same storage);
            # the text must denote what the array holds now
            try:
                fresh = model.build_poly(dict(step["p"], coefficients=step["update_after_print"]))
            except core.Undecided as exc:
                self.bump(f"undecided:{exc.reason}")
                return
            if list(fresh.keys) == list(p.keys) and fresh.dtype == p.dtype and fresh.shape == p.shape:
                try:
                    str(p), repr(p)
                except Exception:  # noqa: BLE001
                    pass
                for key in p.keys:
                    p.values[key] = fresh.values[key]
                self.bump("probe:printed_again_after_in_place_update")
            else:
                self.bump("undecided:update-changes-terms")
                return
        names, els = model.elements(p)
        dtype = p.dtype
        interesting = self._interesting(step["p"])
        if step.get("abort_first") is not None:
            import numpoly

            tracer = seams.LineTracer(NUMPOLY_DIR, k=1 + step["abort_first"] % 120)
            try:
                with numpoly.global_options(display_inverse=not step["display"]["display_inverse"], display_exponent="^"):
                    tracer.run(lambda: numpoly.array_repr(p, precision=3, suppress_small=True))
            except core.SimInterrupt:
                self.bump("fault:print_interrupted_then_printed_again.fired")
            except Exception:  # noqa: BLE001
                pass
        for display in self.displays(step):
            texts = {}
            for pol in self.plan["policies"]:
                with seams.Env(core.H(self.rs, pol), sort=pol, fill="a5") as env, reach_display(step.get("reach", "direct"), display, step.get("other_options")):
                    env.begin_step(sid)
                    try:
                        with numpy.printoptions(**(step.get("np_print") or {})), _decimal_precision(step.get("decimal_prec")):
                            s_text, r_text = str(p), repr(p)
                    except Exception as exc:  # noqa: BLE001
                        if not core.through_numpoly(exc, NUMPOLY_DIR):
                            raise
                        self.violate("text-raises", "str", sid, f"{type(exc).__name__}: {exc}")
                        continue
                    self.bump("seam:sort.consults", env.counters.get("seam:sort.consults", 0))
                    self.bump("seam:sort.consults_with_tie", env.counters.get("seam:sort.consults_with_tie", 0))
                texts[pol] = (s_text, r_text)
                self.bump("decided")
                if interesting:
                    self.sigs.add(f"{core.H(core.jdump(step['p']))}|{core.jdump(display)}|{pol}")
                for fn, text in (("str", s_text), ("repr", r_text)):
                    self.read_back(step, fn, text, display, names, els, dtype, p, pol)
            vals = list(texts.values())
            if any(v != vals[0] for v in vals[1:]):
                self.violate("tie-order-independent", "str", sid, f"text differs between tie policies {list(texts)}: {vals[0][0][:100]!r} vs {vals[-1][0][:100]!r}")
            if vals:
                self.events.append(["text", core.jdump(display), vals[0][0], vals[0][1]])

    @staticmethod
    def _interesting(lit: dict) -> bool:
        degs = [sum(e) for e in lit["exponents"]]
        if len(degs) != len(set(degs)):
            return True
        for col in lit["coefficients"]:
            for v in col:
                if isinstance(v, list) or (isinstance(v, (int, float)) and not isinstance(v, bool) and (v < 0 or abs(v) == 1)):
                    return True
        return False

    def read_back(self, step: dict, fn: str, text: str, display: dict, names: tuple, els: list, dtype: Any, p: Any, pol: str) -> None:
        sid = step["id"]
        where = {"fn": fn}
        if p.size == 0:
            return
        try:
            parts = split_elements(text, display["display_exponent"], display["display_multiply"], fn == "repr")
            if len(parts) != len(els):
                raise ParseError(f"{len(parts)} printed elements for {len(els)} array elements: {text!r}")
            for i, (part, el) in enumerate(zip(parts, els)):
                parsed, order = parse_element(part, names)
                got = {}
                for key, value in parsed.items():
                    with numpy.errstate(all="ignore"):
                        cast = numpy.asarray(value).astype(dtype)[()]
                    if cast != 0:
                        got[key] = cast
                if set(got) != set(el) or any(not self._same(got[k], el[k]) for k in got):
                    self.violate("parse-back", fn, sid, f"element {i} printed as {part!r} reads as {got}, polynomial is {el} (display {display}, policy {pol})", where)
                    return
                # order clause
                g, r, inv = display["display_graded"], display["display_reverse"], display["display_inverse"]
                keys = [model.order_key(k, g, r) for k in order]
                want = sorted(keys, reverse=bool(inv))
                if keys != want or len(set(order)) != len(order):
                    self.violate("term-order", fn, sid, f"element {i} printed as {part!r}: monomial order {order} is not the {'descending' if inv else 'ascending'} order for graded={g} reverse={r} (policy {pol})", {"policy": pol} if pol != "stable" else {"graded": g})
                    return
        except ParseError as exc:
            self.violate("parse-back", fn, sid, f"{exc} (display {display}, policy {pol})", where)

    @staticmethod
    def _same(a: Any, b: Any) -> bool:
        try:
            if a == b:
                return True
            return bool(numpy.isnan(a) and numpy.isnan(b))
        except Exception:  # noqa: BLE001
            return False

    def do_sympy(self, step: dict) -> None:
        import numpoly

        sid = step["id"]
        try:
            p = model.build_poly(step["p"])
        except core.Undecided as exc:
            self.bump(f"undecided:{exc.reason}")
            return
        try:
            import sympy  # noqa: F401
        except ImportError:
            self.bump("undecided:sympy-absent")
            return
        display = {k: v for k, v in step["display"].items() if isinstance(v, bool)}
        for pol in self.plan["policies"]:
            with seams.Env(core.H(self.rs, pol), sort=pol, fill="a5") as env, reach_display("direct", dict(display, display_exponent="**", display_multiply="*"), step.get("other_options")):
                env.begin_step(sid)
                try:
                    back = numpoly.polynomial(numpoly.to_sympy(p))
                except Exception as exc:  # noqa: BLE001
                    self.violate("sympy-roundtrip", "to_sympy", sid, f"{type(exc).__name__}: {exc} for {str(p)!r}")
                    continue
            self.bump("decided")
            self.sigs.add(f"sympy|{core.H(core.jdump(step['p']))}|{pol}")
            want, have = model.canon(p), model.canon(back)
            if not model.canon_equal(want, have, exact=True):
                self.violate("sympy-roundtrip", "to_sympy", sid, f"{str(p)!r} came back as {model.canon_text(have)[:200]}")
        self.events.append(["sympy", model.poly_fingerprint(p)])

    def run(self) -> None:
        popts = numpy.get_printoptions()
        if popts["precision"] != 8 or popts["suppress"] or popts["threshold"] != 1000:
            raise core.HarnessError("numpy print options are not at their defaults")
        for step in self.plan["steps"]:
            self.bump(f"op:{step['k']}")
            if step["k"] == "text":
                self.do_text(step)
            else:
                self.do_sympy(step)


def execute(plan: dict) -> dict:
    import warnings

    import numpoly

    runner = Runner(plan)
    defaults = numpoly.get_options(defaults=True)
    numpoly.set_options(**defaults)
    with warnings.catch_warnings():
        warnings.simplefilter("ignore")
        with numpy.errstate(all="ignore"):
            try:
                prelude.run_prelude(plan.get("prelude"), runner.stats)
                runner.run()
            finally:
                numpoly.set_options(**defaults)
    return {"violations": runner.violations, "events": runner.events, "stats": runner.stats, "sigs": sorted(runner.sigs)}


def simplify(plan: dict):
    if plan.get("prelude"):
        yield dict(plan, prelude=None)
        for i in range(len(plan["prelude"])):
            yield dict(plan, prelude=plan["prelude"][:i] + plan["prelude"][i + 1:] or None)
    if len(plan["policies"]) > 1:
        for pol in plan["policies"]:
            yield dict(plan, policies=[pol])
    step = plan["steps"][0]
    if step.get("all_orders"):
        yield dict(plan, steps=[dict(step, all_orders=False)])
        for g in (True, False):
            for r in (True, False):
                for i in (True, False):
                    yield dict(plan, steps=[dict(step, all_orders=False, display=dict(step["display"], display_graded=g, display_reverse=r, display_inverse=i))])
    if step.get("other_options"):
        yield dict(plan, steps=[dict(step, other_options={})])
    if step.get("abort_first") is not None:
        yield dict(plan, steps=[dict(step, abort_first=None)])
    if step.get("np_print"):
        yield dict(plan, steps=[dict(step, np_print=None)])
    if step.get("decimal_prec"):
        yield dict(plan, steps=[dict(step, decimal_prec=None)])
    if step.get("update_after_print"):
        yield dict(plan, steps=[dict(step, update_after_print=None)])
    if step.get("reach") != "direct":
        yield dict(plan, steps=[dict(step, reach="direct")])
    if step["display"]["display_exponent"] != "**" or step["display"]["display_multiply"] != "*":
        yield dict(plan, steps=[dict(step, display=dict(step["display"], display_exponent="**", display_multiply="*"))])
    for lit in model.lit_shrinks(step["p"]):
        yield dict(plan, steps=[dict(step, p=lit)])
