"""C18 — exponent index generation and sorting are exact and platform-independent.

"Platform-independent" is a statement over every tie order an unstable sort
may legally produce: every case is executed under every SortSeam policy and
must (a) match the comparison-based reference / brute-force enumeration and
(b) give identical output under all policies.
"""
from __future__ import annotations

import itertools
from fractions import Fraction
from typing import Any, Dict, List, Optional, Sequence

import numpy

from .. import prelude, core, model, seams
from ..runner import NUMPOLY_DIR

ID = "C18"
LEVEL = "exploration"
POLICIES_QUICK = ["stable", "reversed", "rotated", "prng", "prng2"]
POLICIES_THOROUGH = POLICIES_QUICK + [f"prng{i}" for i in range(3, 9)]
RULE = (
    "cases: glexsort key matrices (first the exhaustive family D x N in {1x1..6, 2x1..4, 3x1..3}, entries 0..2, all four "
    "graded/reverse settings; then random ones up to 4 x 400 with many equal degree sums), glexindex/bindex/monomial/"
    "cross_truncate argument tuples (dimensions<=4, bounds<=6, norms {0,.5,.8,1,2,inf} and ordered pairs, scalar and "
    "per-dimension bounds; monomial also inside a block with other retain/sort options); every case runs under every tie policy of the unstable-sort stand-in (stable, reversed, rotated, "
    "k seeded permutations). Distinct non-trivial = distinct (case, policy) pairs whose keys contain at least one tie in the "
    "graded sum or lexicographic key (so that an unstable sort has a real choice), counted by the reference."
)
COMPONENTS = {
    "real": ["numpoly.glexsort/glexindex/bindex/cross_truncate/monomial", "numpy (lexsort, stable argsort)"],
    "stand_ins": ["tie order of numpy's unstable argsort/sort (module-level calls inside numpoly)"],
}
ASSUMPTIONS = [
    "start <= stop per dimension and lower norm <= upper norm (then 'between the bounds' is unambiguous)",
    "points whose exact norm is within 1e-9 of the bound are accepted either way for norms .5/.8 (documented 1e-12 nudge)",
    "only module-level numpy.argsort/sort calls are interceptable; method-form calls see this platform's real tie order",
]

_FAMILY_DIMS = [(1, n) for n in range(1, 7)] + [(2, n) for n in range(1, 5)] + [(3, n) for n in range(1, 4)]
_FAMILY_SIZES = [3 ** (d * n) for d, n in _FAMILY_DIMS]
FAMILY = sum(_FAMILY_SIZES)


def setup() -> None:
    pass


def budget(tier: str) -> int:
    # quick: a seeded 1/8 slice of the exhaustive family + random cases; thorough: the whole family + many random
    return 6000 if tier == "quick" else FAMILY + 150000


def _family_matrix(idx: int) -> List[List[int]]:
    for (d, n), size in zip(_FAMILY_DIMS, _FAMILY_SIZES):
        if idx < size:
            digits = []
            for _ in range(d * n):
                digits.append(idx % 3)
                idx //= 3
            return [digits[r * n:(r + 1) * n] for r in range(d)]
        idx -= size
    raise IndexError


NORMS = [0, 0.5, 0.8, 1, 2, "inf"]


def _gen_index_case(ch: core.Chooser) -> dict:
    dims = ch.between(1, 4)
    per_dim = ch.chance(0.5)
    cap = 6 if dims <= 3 else 4
    if per_dim:
        stop: Any = [ch.between(0, cap) for _ in range(dims)]
        start: Any = [ch.between(0, s) for s in stop] if ch.chance(0.6) else 0
    else:
        stop = ch.between(0, cap)
        start = ch.between(0, stop) if ch.chance(0.6) else 0
    if ch.chance(0.3):
        i, j = sorted([ch.below(len(NORMS)), ch.below(len(NORMS))])
        ct: Any = [NORMS[i], NORMS[j]]
    else:
        ct = ch.choice(NORMS)
    case = {"start": start, "stop": stop, "dimensions": dims, "cross_truncation": ct, "graded": ch.chance(0.5), "reverse": ch.chance(0.5)}
    if ch.chance(0.25):  # bounds as numpy integers/arrays of some dtype (e.g. read off poly.exponents, which is uint32)
        case["bound_dtype"] = ch.choice(["uint8", "uint32", "int64", "int32", "uint64"])
    if ch.chance(0.2):  # process-global floating-point error state: index generation never needs to divide by zero
        case["errstate"] = "raise"
    if ch.chance(0.2):
        case["abort_first"] = ch.below(100000)
    c2 = ch.sub("more")
    if c2.sub("neg").chance(0.1):
        # a negative lower bound (documented as clipped at zero): nothing below zero exists, nothing above is lost
        case["start"] = [-c2.sub("neg").between(1, 3) for _ in range(dims)] if isinstance(case["start"], list) else -c2.sub("neg").between(1, 3)
        case.pop("bound_dtype", None)
    if c2.sub("nps").chance(0.15):
        case["np_scalars"] = True  # flags, dimension count and norm arrive as numpy scalars (numpy.bool_, numpy.int64, numpy.float64)
    if c2.chance(0.1):
        # one short and one long axis: degree sums beyond 255 while every single exponent stays small enough for a
        # compact storage type
        long_ = c2.between(250, 300)
        stop2 = [c2.between(1, 4), long_]
        start2 = [0, c2.between(max(0, long_ - 12), long_)] if c2.chance(0.7) else [0, long_ - 3]
        if c2.chance(0.5):
            stop2, start2 = stop2[::-1], start2[::-1]
        case.update(dimensions=2, stop=stop2, start=start2, cross_truncation=c2.choice([1, 2, "inf", "inf"]))
        if case.get("bound_dtype") == "uint8":
            case["bound_dtype"] = "uint16"
    if c2.chance(0.03):
        # the largest expansions of the quantified domain (beyond a thousand terms)
        case.update(dimensions=4, stop=c2.choice([6, [6, 6, 6, 5], [5, 6, 6, 6], 6]), start=0, cross_truncation=c2.choice(["inf", 2, 2, 1]), big=True)
        case.pop("abort_first", None)
    if c2.chance(0.2):
        # an allocation request made inside the call fails (MemoryError at the k-th one): the call may raise, but a
        # value it does return is the exact answer
        case["alloc_fault"] = c2.below(100000)
    return case


def generate(rs: int, tier: str, index: int) -> dict:
    ch = core.Chooser(rs, "plan")
    steps: List[dict] = []
    fam_index: Optional[int] = None
    if tier == "thorough" and index < FAMILY:
        fam_index = index
    elif tier == "quick" and index < 3000:
        fam_index = core.H("c18fam", index) % FAMILY if index >= 1092 else index  # all 1xN, then a seeded slice
    if fam_index is not None:
        steps.append({"id": 0, "k": "glexsort", "keys": _family_matrix(fam_index), "flags": "all"})
    else:
        kind = ch.weighted([(4, "glexsort"), (4, "glexindex"), (2, "bindex"), (2, "monomial"), (2, "cross_truncate")])
        if kind == "glexsort":
            d = ch.between(1, 4)
            n = ch.choice([2, 3, 5, 6, 8, 12, 17, 33, 64, 100, 257, 400])
            hi = ch.choice([1, 2, 2, 3])
            keys = [[ch.below(hi + 1) for _ in range(n)] for _ in range(d)]
            if ch.chance(0.15):
                keys[ch.below(d)] = [1] * n
            if ch.chance(0.1):
                keys = [sorted(r) for r in keys]
            step = {"id": 0, "k": "glexsort", "keys": keys if (d > 1 or ch.chance(0.5)) else keys[0], "flags": "all", "mutate_first": ch.chance(0.2)}
            ck = ch.sub("kd")
            if ck.chance(0.2):
                # keys handed over in a narrow integer type, values near its limit (column sums do not fit the type)
                dt = ck.choice(["uint8", "int8", "uint16", "int16", "uint32", "int32"])
                top = {"uint8": 255, "int8": 127, "uint16": 65535, "int16": 32767, "uint32": 2**32 - 1, "int32": 2**31 - 1}[dt]
                n = ck.choice([2, 3, 5, 8])
                d = max(d, 2)
                step["keys"] = [[(top - ck.below(4)) if ck.chance(0.5) else ck.below(4) for _ in range(n)] for _ in range(d)]
                step["key_dtype"] = dt
            elif ck.chance(0.12):
                # keys that are not whole numbers (dyadic fractions: their sums are exact): 1.25 sorts before 1.5
                step["keys"] = [[v + ck.choice([0, 0.25, 0.5, 0.75]) for v in row] for row in (keys if isinstance(keys[0], list) else [keys])]
                if len(step["keys"]) == 1 and ck.chance(0.5):
                    step["keys"] = step["keys"][0]
                step["key_dtype"] = "float64"
        elif kind == "glexindex":
            step = dict(_gen_index_case(ch.sub("c")), id=0, k="glexindex", mutate_first=ch.chance(0.3))
        elif kind == "bindex":
            c = _gen_index_case(ch.sub("c"))
            c.pop("graded"), c.pop("reverse")
            step = dict(c, id=0, k="bindex", ordering="".join((x.lower() if ch.chance(0.3) else x) for x in ch.shuffle(list("GRI")) if ch.chance(0.5)), mutate_first=ch.chance(0.3))
        elif kind == "monomial":
            c = _gen_index_case(ch.sub("c"))
            if c["dimensions"] > 3 and not c.get("big"):
                c["dimensions"] = 3
                for key in ("start", "stop"):
                    if isinstance(c[key], list):
                        c[key] = c[key][:3]
            names_mode = ch.below(3)
            step = dict(c, id=0, k="monomial", names=(None if names_mode else model.gen_names(ch.sub("n"), c["dimensions"], c["dimensions"])))
            if ch.sub("active").chance(0.35):
                # the expansion is asked for while a block with other clean-up / sorting options is open (option state left by
                # the caller): still every requested indeterminate, one monomial per exponent
                ca = ch.sub("active")
                step["active"] = {k: ca.sub(k).chance(0.5) for k in ca.sample(["retain_names", "retain_coefficients", "sort_graded", "sort_reverse"], ca.between(1, 3))}
                if ca.chance(0.6):
                    step["active"]["retain_names"] = False
            if names_mode and ch.sub("varname").chance(0.3):
                step["varname"] = ch.sub("varname").choice(["x", "z"])
                step.pop("abort_first", None)
        else:
            d = ch.between(1, 3)
            n = ch.between(1, 30)
            step = {"id": 0, "k": "cross_truncate", "indices": [[ch.below(7) for _ in range(d)] for _ in range(n)],
                    "bound": ([ch.between(-1, 5) for _ in range(d)] if ch.chance(0.5) else ch.between(-1, 5)), "norm": ch.choice(NORMS)}
        steps.append(step)
    return {"property": ID, "run_seed": rs, "tier": tier, "prelude": prelude.gen_prelude(core.Chooser(rs, "prelude")), "steps": steps}


# ---------------------------------------------------------------------------
# reference


def _norm_value(n: Any) -> float:
    return numpy.inf if n == "inf" else n


def inside(x: Sequence[int], bound: Sequence[Any], norm: Any) -> Optional[bool]:
    """Is x inside the L_norm bound? None = too close to call (float norms)."""
    if any(b < 0 for b in bound):
        return False
    for xi, b in zip(x, bound):
        if b == 0 and xi != 0:
            return False
    pairs = [(xi, b) for xi, b in zip(x, bound) if b != 0]
    if not pairs:
        return True
    if norm == 0:
        return sum(1 for xi, _ in pairs if xi > 0) <= 1 and all(xi <= b for xi, b in pairs)
    if norm == "inf":
        return all(xi <= b for xi, b in pairs)
    if norm in (1, 2):
        return sum(Fraction(xi, b) ** norm for xi, b in pairs) <= 1
    import mpmath

    mpmath.mp.dps = 50
    total = mpmath.mpf(0)
    for xi, b in pairs:
        total += (mpmath.mpf(xi) / mpmath.mpf(b)) ** mpmath.mpf(str(norm))
    value = total ** (1 / mpmath.mpf(str(norm)))
    if abs(value - 1) < mpmath.mpf("1e-9"):
        return None
    return bool(value <= 1)


def ref_sort_key(col: Sequence[int], graded: bool, reverse: bool) -> tuple:
    return model.order_key(col, graded, reverse)


def ref_glexindex(start: Any, stop: Any, dims: int, ct: Any, graded: bool, reverse: bool):
    """(sure, maybe): tuples that must be present in order, tuples that may be."""
    if stop is None:
        start, stop = 0, start
    start_l = list(numpy.broadcast_to(numpy.array(start, dtype=int).flatten(), (max(dims, numpy.size(start), numpy.size(stop)),)))
    stop_l = list(numpy.broadcast_to(numpy.array(stop, dtype=int).flatten(), (len(start_l),)))
    d = len(start_l)
    start_l = [max(0, int(s)) for s in start_l]
    stop_l = [int(s) for s in stop_l]
    lo_n, hi_n = (ct if isinstance(ct, list) else [ct, ct])
    top = max(stop_l) if stop_l else 0
    sure, maybe = [], []
    for x in itertools.product(range(max(top, 0)), repeat=d):
        up = inside(x, [s - 1 for s in stop_l], hi_n)
        lo = inside(x, [s - 1 for s in start_l], lo_n)
        if up is None or lo is None:
            maybe.append(x)
        elif up and not lo:
            sure.append(x)
    key = lambda c: ref_sort_key(c, graded, reverse)
    return sorted(sure, key=key), set(maybe), key


# ---------------------------------------------------------------------------


def _ct(ct: Any) -> Any:
    if isinstance(ct, list):
        return [_norm_value(c) for c in ct]
    return _norm_value(ct)


class Runner:
    def __init__(self, plan: dict):
        self.plan = plan
        self.rs = plan["run_seed"]
        self.violations: List[dict] = []
        self.events: List[Any] = []
        self.stats: Dict[str, int] = {}
        self.sigs: set = set()

    def bump(self, key: str, n: int = 1) -> None:
        self.stats[key] = self.stats.get(key, 0) + n

    def violate(self, clause: str, op: str, sid: Any, detail: str, where: dict) -> None:
        rec = core.Violation(clause, op, detail, where, sid).record()
        if not any(core.vclass(r) == core.vclass(rec) for r in self.violations):
            self.violations.append(rec)
        self.events.append(["violation", sid, clause, op])

    def under_policies(self, step: dict, func) -> Dict[str, Any]:
        """Run func() under each tie policy; returns {policy: result or exception name}."""
        out = {}
        policies = POLICIES_THOROUGH if self.plan.get("tier") == "thorough" else POLICIES_QUICK
        policies = step.get("policies", policies)
        for pol in policies:
            name = "prng" if pol.startswith("prng") else pol
            # fresh memory holds a fixed pattern (not zeros, not whatever this process freed last): a result that
            # depends on it is wrong in the same way in every execution of the run
            with seams.Env(core.H(self.rs, pol), sort=name, fill="a5") as env:
                env.begin_step(step["id"])
                try:
                    res = func()
                except core.SimInterrupt:
                    raise
                except Exception as exc:  # noqa: BLE001
                    res = ("raised", type(exc).__name__, str(exc)[:120])
                consults, ties = env.counters.get("seam:sort.consults", 0), env.counters.get("seam:sort.consults_with_tie", 0)
            self.bump("seam:sort.consults", consults)
            self.bump("seam:sort.consults_with_tie", ties)
            self.bump(f"seam:sort.policy_{name}.runs")
            out[pol] = res
        return out

    @staticmethod
    def _same(a: Any, b: Any) -> bool:
        if isinstance(a, numpy.ndarray) and isinstance(b, numpy.ndarray):
            return a.shape == b.shape and numpy.array_equal(a, b)
        if isinstance(a, numpy.ndarray) or isinstance(b, numpy.ndarray):
            return False
        return a == b

    def check_policies(self, step: dict, op: str, results: Dict[str, Any]) -> Any:
        base = results["stable"]
        for pol, res in results.items():
            if not self._same(base, res):
                self.violate("tie-order-independent", op, step["id"], f"result under tie policy {pol} differs from the stable one", {"policy": "prng" if pol.startswith("prng") else pol})
                break
        return base

    # -- glexsort ----------------------------------------------------------
    def do_glexsort(self, step: dict) -> None:
        import numpoly

        keys = numpy.array(step["keys"], dtype=step.get("key_dtype", int))
        keys2 = numpy.atleast_2d(numpy.array(step["keys"], dtype=object))
        n = keys2.shape[1]
        cols = [tuple((int(v) if float(v) == int(v) else float(v)) for v in keys2[:, i]) for i in range(n)]  # (fractional keys stay what they are)
        flag_sets = [(g, r) for g in (False, True) for r in (False, True)] if step.get("flags") == "all" else [(step["graded"], step["reverse"])]
        for graded, reverse in flag_sets:
            if step.get("mutate_first"):
                try:
                    earlier = numpoly.glexsort(keys, graded=graded, reverse=reverse)
                    if earlier.size and earlier.flags.writeable:
                        earlier[...] = 0
                except Exception:  # noqa: BLE001
                    pass
            results = self.under_policies(step, lambda: numpoly.glexsort(keys, graded=graded, reverse=reverse))
            ref = sorted(cols, key=lambda c: ref_sort_key(c, graded, reverse))
            sums = [sum(c) for c in cols]
            has_tie = len(set(sums)) < len(sums) if graded else len(set(cols)) < len(cols)
            for pol, res in results.items():
                self.bump("decided")
                if has_tie:
                    self.sigs.add(f"glexsort|{keys2.tolist()}|{graded}|{reverse}|{pol}")
                where = {"graded": graded}
                if isinstance(res, tuple) and res and res[0] == "raised":
                    self.violate("glexsort-sorts", "glexsort", step["id"], f"raised {res[1]}: {res[2]}", where)
                    continue
                perm = numpy.asarray(res).ravel().tolist()
                if sorted(perm) != list(range(n)):
                    self.violate("glexsort-permutation", "glexsort", step["id"], f"not a permutation of range({n}): {perm[:20]}", where)
                    continue
                got = [cols[i] for i in perm]
                if got != ref:
                    first = next(i for i, (a, b) in enumerate(zip(got, ref)) if a != b)
                    self.violate("glexsort-sorts", "glexsort", step["id"], f"graded={graded} reverse={reverse} policy={pol}: position {first}: got {got[first]} expected {ref[first]}", where)
            self.events.append(["glexsort", graded, reverse, [numpy.asarray(r).tolist() if not isinstance(r, tuple) else list(r) for r in results.values()][0][:50]])

    # -- glexindex family ----------------------------------------------------
    def _compare_indices(self, step: dict, op: str, got_arr: Any, sure: list, maybe: set, key, where: dict, inverse: bool = False) -> None:
        got = [tuple(int(v) for v in numpy.asarray(row).ravel().tolist()) for row in got_arr]
        if inverse:
            got = got[::-1]
        if len(set(got)) != len(got):
            self.violate("index-no-duplicates", op, step["id"], f"duplicate tuples in {got[:12]}", where)
            return
        got_sure = [g for g in got if g not in maybe]
        if got_sure != sure:
            missing = [s for s in sure if s not in got_sure][:5]
            extra = [g for g in got_sure if g not in sure][:5]
            if missing or extra:
                self.violate("index-set-exact", op, step["id"], f"missing {missing} unexpected {extra} (of {len(sure)} expected)", where)
            else:
                self.violate("index-order", op, step["id"], f"same tuples, wrong order: got {got_sure[:8]} expected {sure[:8]}", where)
            return
        if [key(g) for g in got] != sorted(key(g) for g in got):
            self.violate("index-order", op, step["id"], "borderline tuples out of order", where)

    def do_index(self, step: dict) -> None:
        import numpoly

        kind = step["k"]
        kwargs = {"start": step["start"], "stop": step["stop"], "dimensions": step["dimensions"], "cross_truncation": _ct(step["cross_truncation"])}
        if step.get("bound_dtype"):
            dt = numpy.dtype(step["bound_dtype"])
            kwargs["start"], kwargs["stop"] = (numpy.array(v, dtype=dt) if isinstance(v, list) else dt.type(v) for v in (step["start"], step["stop"]))
        if step.get("np_scalars"):
            if kind != "monomial":  # (monomial documents `dimensions` as int or names and tells them apart by isinstance(int))
                kwargs["dimensions"] = numpy.int64(kwargs["dimensions"])
            ctv = kwargs["cross_truncation"]
            kwargs["cross_truncation"] = numpy.float64(ctv) if not isinstance(ctv, (list, tuple)) else [numpy.float64(v) for v in ctv]
        if kind == "bindex":
            ordering = step["ordering"]
            graded, reverse, inverse = "G" in ordering.upper(), "R" not in ordering.upper(), "I" in ordering.upper()  # (any case, any letter order)
            func = lambda: numpoly.bindex(ordering=ordering, **kwargs)
        else:
            graded, reverse, inverse = step["graded"], step["reverse"], False
            if step.get("np_scalars"):
                graded, reverse = numpy.bool_(graded), numpy.bool_(reverse)
            if kind == "glexindex":
                func = lambda: numpoly.glexindex(graded=graded, reverse=reverse, **kwargs)
            else:
                kw = dict(kwargs)
                if step.get("names"):
                    kw["dimensions"] = tuple(step["names"])
                func = lambda: numpoly.monomial(graded=graded, reverse=reverse, **kw)
                if step.get("varname") and not step.get("names"):
                    # history: the same expansion was asked for under the shipped default name first; now another
                    # default name is in force (through the public options) and the indeterminates carry it
                    try:
                        func()
                    except Exception:  # noqa: BLE001
                        pass
                    plain = func
                    vn = step["varname"]

                    def func():  # noqa: F811
                        with numpoly.global_options(default_varname=vn, varname_filter=vn + r"\d+"):
                            return plain()
        if kind == "monomial" and step.get("active"):
            unscoped = func
            active = step["active"]
            self.bump("probe:monomial_inside_option_block")

            def func():  # noqa: F811
                with numpoly.global_options(**active):
                    return unscoped()
        if step.get("mutate_first") and kind != "monomial":
            # history: an earlier caller got the same result and edited it in place
            try:
                earlier = func()
                if isinstance(earlier, numpy.ndarray) and earlier.size and earlier.flags.writeable:
                    earlier += 7
                    self.bump("probe:returned_array_mutated_before_recall")
            except Exception:  # noqa: BLE001
                pass
        if step.get("abort_first") is not None:
            # history: a neighbouring request succeeds, then this very request is aborted part-way (an interrupt
            # between two lines of numpoly code), then it is made again
            try:
                kw2 = dict(kwargs, stop=(numpy.asarray(kwargs["stop"]) + 1))
                (numpoly.bindex(ordering=step["ordering"], **kw2) if kind == "bindex" else
                 numpoly.glexindex(graded=graded, reverse=reverse, **kw2) if kind == "glexindex" else
                 numpoly.monomial(graded=graded, reverse=reverse, **dict(kw2, dimensions=kw["dimensions"] if kind == "monomial" else kw2["dimensions"])))
            except Exception:  # noqa: BLE001
                pass
            tracer = seams.LineTracer(NUMPOLY_DIR, k=1 + step["abort_first"] % 150)
            try:
                tracer.run(func)
            except core.SimInterrupt:
                self.bump("fault:interrupted_then_retried.fired")
            except Exception:  # noqa: BLE001
                pass
        if step.get("errstate") == "raise":
            inner = func

            def func():  # noqa: F811
                with numpy.errstate(all="raise"):
                    return inner()

        results = self.under_policies(step, func)
        sure, maybe, key = ref_glexindex(step["start"], step["stop"], step["dimensions"], step["cross_truncation"], graded, reverse)
        base = self.check_policies(step, kind, {k: (self._mono_fp(v) if kind == "monomial" else v) for k, v in results.items()})
        degs = [sum(s) for s in sure]
        has_tie = len(set(degs)) < len(degs) if graded else False
        for pol, res in results.items():
            self.bump("decided")
            if has_tie:
                self.sigs.add(f"{kind}|{step['start']}|{step['stop']}|{step['dimensions']}|{step['cross_truncation']}|{graded}|{reverse}|{pol}")
            where = {}
            if isinstance(res, tuple) and res and res[0] == "raised":
                self.violate("index-set-exact", kind, step["id"], f"raised {res[1]}: {res[2]}", where)
                continue
            if kind == "monomial":
                exps = self._monomial_exponents(step, res, where)
                if exps is None:
                    continue
                self._compare_indices(step, kind, exps, sure, maybe, key, where)
            else:
                self._compare_indices(step, kind, numpy.asarray(res), sure, maybe, key, where, inverse=inverse)
        self.events.append([kind, self._mono_fp(base) if kind == "monomial" else (numpy.asarray(base).tolist() if not isinstance(base, tuple) else list(base))])
        if step.get("alloc_fault") is not None:
            self._alloc_fault(step, kind, func, sure, maybe, key, inverse)

    def _alloc_fault(self, step: dict, kind: str, func, sure: list, maybe: set, key, inverse: bool) -> None:
        with seams.Env(self.rs, sort="stable") as env:
            env.begin_step(step["id"])
            try:
                func()
            except core.SimInterrupt:
                raise
            except Exception:  # noqa: BLE001
                return
            total = env.alloc_index
            if not total:
                self.bump("undecided:no-fault-position")
                return
            env.begin_step(step["id"])
            env.alloc_fail_at = 1 + step["alloc_fault"] % total
            self.bump("fault:alloc_memoryerror.configured")
            try:
                res = func()
            except core.SimInterrupt:
                raise
            except BaseException:  # noqa: BLE001
                self.bump("probe:alloc_fault_surfaced")
                return
            finally:
                fired = env.alloc_fail_at is None
                env.alloc_fail_at = None
                self.bump("fault:alloc_memoryerror.fired", env.counters.get("fault:alloc_memoryerror.fired", 0))
        self.bump("decided")
        if fired:
            self.bump("probe:alloc_fault_absorbed")
        where = {"fault": "alloc"}
        if kind == "monomial":
            exps = self._monomial_exponents(step, res, where)
            if exps is not None:
                self._compare_indices(step, kind, exps, sure, maybe, key, where)
        else:
            self._compare_indices(step, kind, numpy.asarray(res), sure, maybe, key, where, inverse=inverse)

    @staticmethod
    def _mono_fp(res: Any) -> Any:
        import numpoly

        if isinstance(res, numpoly.ndpoly):
            return model.poly_fingerprint(res) + "|" + ",".join(res.names)
        return res

    def _monomial_exponents(self, step: dict, poly: Any, where: dict) -> Optional[list]:
        """monomial(...)[i] must be the single monomial with the i-th exponent."""
        names, elems = model.elements(poly)
        if step.get("varname") and not step.get("names"):
            prefix = step["varname"]
            if not all(str(nm) == f"{prefix}{i}" for i, nm in enumerate(names)):
                self.violate("monomial-names", "monomial", step["id"], f"names {names} while default_varname is {prefix!r}", where)
                return None
        if step.get("names") and list(names) != list(step["names"]):
            self.violate("monomial-names", "monomial", step["id"], f"names {names} != requested {step['names']}", where)
            return None
        if len(names) != int(step["dimensions"]):
            self.violate("monomial-names", "monomial", step["id"], f"names {names} for dimensions={step['dimensions']} (options in force: {step.get('active')})", where)
            return None
        if poly.ndim != 1:
            self.violate("monomial-single-term", "monomial", step["id"], f"shape {poly.shape}", where)
            return None
        out = []
        for i, el in enumerate(elems):
            if len(el) != 1 or list(el.values())[0] != 1:
                self.violate("monomial-single-term", "monomial", step["id"], f"element {i} is {el}, not a single monomial with coefficient 1", where)
                return None
            out.append(list(el)[0])
        return out

    def do_cross_truncate(self, step: dict) -> None:
        import numpoly

        idx = numpy.array(step["indices"], dtype=int)
        norm = _norm_value(step["norm"])
        results = self.under_policies(dict(step, policies=["stable"]), lambda: numpoly.cross_truncate(idx, step["bound"], norm))
        res = results["stable"]
        self.bump("decided")
        d = idx.shape[1]
        bound = step["bound"] if isinstance(step["bound"], list) else [step["bound"]] * d
        if isinstance(res, tuple) and res and res[0] == "raised":
            # the function's own sanity assert may fire for norm 0 with a zero vector outside; anything else is a failure
            self.violate("cross-truncate-exact", "cross_truncate", step["id"], f"raised {res[1]}: {res[2]}", {"norm": str(step["norm"])})
            return
        for row, got in zip(step["indices"], numpy.asarray(res).tolist()):
            want = inside(row, bound, step["norm"])
            if want is not None and bool(got) != want:
                self.violate("cross-truncate-exact", "cross_truncate", step["id"], f"index {row} bound {bound} norm {step['norm']}: got {got}, expected {want}", {"norm": str(step["norm"])})
                break
        self.events.append(["cross_truncate", numpy.asarray(res).tolist()])
        self.sigs.add(f"cross_truncate|{step['indices']}|{step['bound']}|{step['norm']}")

    def run(self) -> None:
        for step in self.plan["steps"]:
            k = step["k"]
            self.bump(f"op:{k}")
            if k == "glexsort":
                self.do_glexsort(step)
            elif k in ("glexindex", "bindex", "monomial"):
                self.do_index(step)
            elif k == "cross_truncate":
                self.do_cross_truncate(step)
            else:
                raise core.HarnessError(k)


def execute(plan: dict) -> dict:
    import warnings

    runner = Runner(plan)
    with warnings.catch_warnings():
        warnings.simplefilter("ignore")
        with numpy.errstate(all="ignore"):
            prelude.run_prelude(plan.get("prelude"), runner.stats)
            runner.run()
    return {"violations": runner.violations, "events": runner.events, "stats": runner.stats, "sigs": sorted(runner.sigs)}


def simplify(plan: dict):
    if plan.get("prelude"):
        yield dict(plan, prelude=None)
        for i in range(len(plan["prelude"])):
            yield dict(plan, prelude=plan["prelude"][:i] + plan["prelude"][i + 1:] or None)
    for i, step in enumerate(plan["steps"]):
        if step["k"] == "glexsort":
            keys = step["keys"]
            if keys and isinstance(keys[0], list):
                n = len(keys[0])
                if step.get("flags") == "all":
                    for g in (False, True):
                        for r in (False, True):
                            yield dict(plan, steps=[dict(step, flags="one", graded=g, reverse=r)])
                for j in range(n):
                    if n > 1:
                        yield dict(plan, steps=[dict(step, keys=[row[:j] + row[j + 1:] for row in keys])])
                if len(keys) > 1:
                    for r in range(len(keys)):
                        yield dict(plan, steps=[dict(step, keys=keys[:r] + keys[r + 1:])])
                for r, row in enumerate(keys):
                    for j, v in enumerate(row):
                        if v > 0:
                            nk = [list(x) for x in keys]
                            nk[r][j] = v - 1
                            yield dict(plan, steps=[dict(step, keys=nk)])
        elif step["k"] in ("glexindex", "bindex", "monomial"):
            for key in ("bound_dtype", "errstate", "mutate_first", "abort_first", "alloc_fault", "key_dtype", "np_scalars", "varname"):
                if step.get(key):
                    yield dict(plan, steps=[{k: v for k, v in step.items() if k != key}])
            if step["dimensions"] > 1 and not isinstance(step["stop"], list) and not isinstance(step["start"], list):
                yield dict(plan, steps=[dict(step, dimensions=step["dimensions"] - 1, names=(step.get("names") or [None])[:-1] if step.get("names") else None)])
            for key in ("stop", "start"):
                v = step[key]
                if isinstance(v, list):
                    for j, x in enumerate(v):
                        if x > 0:
                            yield dict(plan, steps=[dict(step, **{key: v[:j] + [x - 1] + v[j + 1:]})])
                elif isinstance(v, int) and v > 0:
                    yield dict(plan, steps=[dict(step, **{key: v - 1})])
            if isinstance(step["cross_truncation"], list):
                yield dict(plan, steps=[dict(step, cross_truncation=step["cross_truncation"][1])])
            elif step["cross_truncation"] != 1:
                yield dict(plan, steps=[dict(step, cross_truncation=1)])
