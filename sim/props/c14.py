"""C14 — global options are scoped, restored on every exit path, updated atomically.

A plan is a program tree interpreted with *real* ``with`` statements; the
oracle is a stack model of the option dict checked after every step.
Faults: exceptions of every kind raised inside blocks, early return/break,
generator close/throw, and exceptions injected *inside real numpoly calls*
made in the block (asynchronous interrupt at the k-th executed line,
MemoryError at the k-th allocation).
"""
from __future__ import annotations

import json
from typing import Any, Dict, List, Optional

from .. import core, ops, seams
from ..runner import NUMPOLY_DIR

ID = "C14"
LEVEL = "fault_enumeration"
RULE = (
    "programs over {enter block, set_options, invalid set/enter, mutate returned dicts, raise E, numpoly op with "
    "injected fault, catch, early return/break, generator-held block closed/thrown into, decorated function}; first the "
    "enumerated family (depth 1-4 x exit kind x inner action x catch level), then seeded random programs (depth<=4, "
    "<=14 steps). A case is non-trivial iff a block was left by a non-normal path or an invalid update was attempted "
    "or a returned dict was mutated; distinct = distinct abstract history (sequence of step kind, depth, exit kind)."
)
COMPONENTS = {
    "real": ["numpoly.option (set_options/get_options/global_options)", "contextlib", "every numpoly operation called inside blocks", "numpy"],
    "stand_ins": ["source of asynchronous exceptions (sys.settrace line interrupt)", "allocation failure (ndpoly.__new__ wrapper)"],
}
ASSUMPTIONS = [
    "injected interrupts never target frames of numpoly/option.py (DESIGN.md C14 scope decision)",
    "generator-held blocks are closed/thrown into only while innermost (LIFO)",
]

EXC_NAMES = ["ValueError", "KeyError", "StopIteration", "KeyboardInterrupt", "SystemExit", "GeneratorExit", "SimBase"]


class SimBase(BaseException):
    pass


EXC = {"ValueError": ValueError, "KeyError": KeyError, "StopIteration": StopIteration, "KeyboardInterrupt": KeyboardInterrupt,
       "SystemExit": SystemExit, "GeneratorExit": GeneratorExit, "SimBase": SimBase}

DOMAIN = {
    "default_varname": ["q", "x", "p"],  # one character: longer prefixes make numpoly's name order follow str hashing (DESIGN.md S6)
    "display_graded": [True, False],
    "display_reverse": [True, False],
    "display_inverse": [True, False],
    "display_exponent": ["**", "^", "**", None],  # (values are not validated: None, 0 and "" can be stored like anything else)
    "display_multiply": ["*", " * ", "·", ""],
    "force_number_suffix": [True, False, None, 0],
    "retain_names": [True, False],
    "retain_coefficients": [True, False],
    "sort_graded": [True, False],
    "sort_reverse": [True, False],
    "varname_filter": [r"q\d+", r".+", r"[a-z]+\d*"],
}
BAD_KEYS = ["nope", "display_gradedd", "sort", "Retain_names", "defaults", "options", "kwargs", "self", "key", "value", "args"]  # (incl. names a helper's own parameters might have)

_DEFAULTS: Optional[dict] = None


def setup() -> None:
    global _DEFAULTS
    import numpoly

    if _DEFAULTS is None:
        _DEFAULTS = dict(numpoly.get_options(defaults=True))
        if set(_DEFAULTS) != set(DOMAIN):
            # new/removed options: extend the domain with the default itself
            for key, value in _DEFAULTS.items():
                DOMAIN.setdefault(key, [value])
    ops.ensure()


def budget(tier: str) -> int:
    return 3000 if tier == "quick" else 200000


# ---------------------------------------------------------------------------
# generation


def _kw(ch: core.Chooser, lo: int = 1, hi: int = 3) -> dict:
    keys = ch.sample(sorted(DOMAIN), ch.between(lo, hi))
    return {k: ch.choice(DOMAIN[k]) for k in sorted(keys)}


def _enumerated() -> List[dict]:
    """Finite family: depth x exit kind x inner action x catch level."""
    family = []
    exits = ["normal", "return", "break", "gen_close", "gen_throw", "decorated"] + ["raise:" + e for e in EXC_NAMES] + ["op_fault:line", "op_fault:alloc"]
    actions = ["none", "set", "set_invalid", "enter_invalid", "get_mutate:current", "get_mutate:defaults", "get_mutate:yielded"]
    for depth in (1, 2, 3, 4):
        for ex in exits:
            for act in actions:
                levels = [0] if not (ex.startswith("raise") or ex.startswith("op_fault")) else list(range(depth))
                for catch in levels:
                    family.append({"depth": depth, "exit": ex, "action": act, "catch": catch})
    return family


_FAMILY = _enumerated()


def _op_node(ch: core.Chooser, fault: Optional[str]) -> dict:
    desc = ops.gen_op(ch.sub("op"), only=["op.mul", "op.add", "str", "derivative", "less", "monomial", "call", "polynomial.list", "sum", "getitem", "align_polynomials", "variable"])
    node = {"k": "op", "op": desc}
    if fault:
        node["fault"] = {"kind": fault, "u": ch.u64()}
    return node


def _from_family(item: dict, ch: core.Chooser) -> List[dict]:
    """Build the program for one enumerated case."""
    depth, ex, act, catch = item["depth"], item["exit"], item["action"], item["catch"]
    inner: List[dict] = []
    if act == "set":
        inner.append({"k": "set", "kw": _kw(ch.sub("set"))})
    elif act == "set_invalid":
        inner.append({"k": "set_invalid", "kw": _kw(ch.sub("si"), 0, 2), "bad": ch.choice(BAD_KEYS), "bad_first": ch.chance(0.5), "full_table": ch.sub("full").chance(0.25)})
    elif act == "enter_invalid":
        inner.append({"k": "enter_invalid", "kw": _kw(ch.sub("ei"), 0, 2), "bad": ch.choice(BAD_KEYS), "bad_first": ch.chance(0.5), "full_table": ch.sub("full").chance(0.25)})
    elif act.startswith("get_mutate"):
        inner.append({"k": "get_mutate", "which": act.split(":")[1]})
    if ex.startswith("raise:"):
        inner.append({"k": "raise", "exc": ex.split(":")[1]})
    elif ex.startswith("op_fault:"):
        inner.append(_op_node(ch.sub("opf"), ex.split(":")[1]))
    elif ex in ("return", "break"):
        inner.append({"k": "leave", "how": ex})
        inner.append({"k": "set", "kw": _kw(ch.sub("dead"))})  # must be skipped
    body = inner
    for level in range(depth):
        kind = "block"
        if level == 0 and ex in ("gen_close", "gen_throw"):
            node = {"k": "genblock", "kw": _kw(ch.sub("kw", level)), "body": body, "end": ex[4:], "exc": ch.choice(EXC_NAMES)}
        elif level == 0 and ex == "decorated":
            node = {"k": "decorated", "kw": _kw(ch.sub("kw", level)), "body": body}
        else:
            node = {"k": kind, "kw": _kw(ch.sub("kw", level)), "body": body}
        body = [node]
        if (ex.startswith("raise") or ex.startswith("op_fault")) and level == depth - 1 - catch:
            body = [{"k": "catch", "body": body}]
    prog = body
    if ch.chance(0.5):
        prog = [{"k": "set", "kw": _kw(ch.sub("pre"))}] + prog
    prog.append({"k": "set", "kw": _kw(ch.sub("post"), 1, 2)})
    return prog


def _random_body(ch: core.Chooser, depth: int, budget_: List[int]) -> List[dict]:
    body: List[dict] = []
    n = ch.between(1, 4)
    for i in range(n):
        if budget_[0] <= 0:
            break
        budget_[0] -= 1
        c = ch.sub(i)
        kind = c.weighted([
            (5 if depth < 4 else 0, "block"), (4, "set"), (2, "set_invalid"), (2, "enter_invalid"), (1, "set_badvalue"), (2, "get_mutate"),
            (2 if depth else 0, "raise"), (3, "op"), (2 if depth else 0, "op_fault"), (3 if depth < 4 else 0, "catch"),
            (1 if depth else 0, "leave"), (2 if depth < 4 else 0, "genblock"), (1 if depth < 4 else 0, "decorated"),
            (1 if depth < 4 else 0, "reuse"), (1 if depth == 0 else 0, "deep"),
        ])
        if kind == "block":
            node = {"k": "block", "kw": _kw(c.sub("kw"), 0, 3), "body": _random_body(c.sub("b"), depth + 1, budget_)}
            if c.chance(0.2):
                node["deferred"] = _kw(c.sub("def"), 1, 2)
            body.append(node)
        elif kind == "set":
            body.append({"k": "set", "kw": _kw(c.sub("kw"))})
        elif kind == "set_invalid":
            body.append({"k": "set_invalid", "kw": _kw(c.sub("kw"), 0, 3), "bad": c.choice(BAD_KEYS), "bad_first": c.chance(0.5), "full_table": c.sub("full").chance(0.25)})
        elif kind == "enter_invalid":
            body.append({"k": "enter_invalid", "kw": _kw(c.sub("kw"), 0, 3), "bad": c.choice(BAD_KEYS), "bad_first": c.chance(0.5), "full_table": c.sub("full").chance(0.25)})
        elif kind == "set_badvalue":
            body.append({"k": "set_badvalue", "kw": {k: v for k, v in _kw(c.sub("kw"), 1, 3).items() if k != "varname_filter"}, "bad_first": c.chance(0.4), "enter": c.chance(0.5)})
        elif kind == "get_mutate":
            body.append({"k": "get_mutate", "which": c.choice(["current", "defaults", "yielded"])})
        elif kind == "raise":
            body.append({"k": "raise", "exc": c.choice(EXC_NAMES)})
        elif kind == "op":
            body.append(_op_node(c, None))
        elif kind == "op_fault":
            node = _op_node(c, c.choice(["line", "line", "alloc", "interleave", "interleave"]))
            if node["fault"]["kind"] == "interleave":
                node["fault"]["kw"] = _kw(c.sub("other"), 1, 2)  # what the other thread sets while the operation is under way
            body.append(node)
        elif kind == "catch":
            body.append({"k": "catch", "body": _random_body(c.sub("b"), depth, budget_)})
        elif kind == "leave":
            body.append({"k": "leave", "how": c.choice(["return", "break"])})
        elif kind == "genblock":
            body.append({"k": "genblock", "kw": _kw(c.sub("kw"), 0, 3), "body": _random_body(c.sub("b"), depth + 1, budget_),
                         "end": c.choice(["close", "throw", "exhaust"]), "exc": c.choice(EXC_NAMES)})
        elif kind == "deep":
            body.append({"k": "deep", "kw": _kw(c.sub("kw"), 1, 3), "inner": _kw(c.sub("in"), 1, 2), "span": 45, "raise": c.chance(0.3)})
        elif kind == "reuse":
            body.append({"k": "reuse", "kw": _kw(c.sub("kw"), 1, 3), "mode": c.choice(["nested", "sequential", "recursive"]),
                         "inner": [_kw(c.sub("in", j), 1, 2) for j in range(c.between(2, 3))]})
        elif kind == "decorated":
            node = {"k": "decorated", "kw": _kw(c.sub("kw"), 0, 3), "body": _random_body(c.sub("b"), depth + 1, budget_)}
            if c.chance(0.4):
                node["again"] = _kw(c.sub("again"), 1, 2)
            body.append(node)
    return body


def _number(nodes: List[dict], counter: List[int]) -> None:
    for node in nodes:
        node["id"] = counter[0]
        counter[0] += 1
        if "body" in node:
            _number(node["body"], counter)


def generate(rs: int, tier: str, index: int) -> dict:
    setup()
    ch = core.Chooser(rs, "plan")
    if index < len(_FAMILY):
        steps = _from_family(_FAMILY[index], ch.sub("fam"))
        origin = {"family_index": index, **_FAMILY[index]}
    else:
        steps = _random_body(ch.sub("rnd"), 0, [14])
        origin = {"random": True}
    _number(steps, [0])
    start = _kw(ch.sub("start"), 1, 4) if ch.chance(0.3) else {}
    plan = {"property": ID, "run_seed": rs, "tier": tier, "origin": origin, "options_at_start": start, "steps": steps}
    if ch.sub("warn").chance(0.2):
        # process-wide setting (python -W error): every warning is an exception at the point where it is issued
        plan["warnings"] = "error"
    return plan


# ---------------------------------------------------------------------------
# execution


def _norm(options: dict) -> str:
    return json.dumps({k: [type(v).__name__, v] for k, v in options.items()}, sort_keys=True)


class Interp:
    def __init__(self, plan: dict):
        import numpoly

        self.np = numpoly
        self.plan = plan
        self.rs = plan["run_seed"]
        self.model: Dict[str, Any] = dict(_DEFAULTS)  # type: ignore[arg-type]
        self.violations: List[dict] = []
        self.events: List[Any] = []
        self.stats: Dict[str, int] = {}
        self.history: List[str] = []
        self.depth = 0
        self.nontrivial = False
        self.env: Optional[seams.Env] = None

    def bump(self, key: str, n: int = 1) -> None:
        self.stats[key] = self.stats.get(key, 0) + n

    # -- oracle ------------------------------------------------------------
    def check(self, node_id: Any, where: str, op: str) -> None:
        self.bump("decided")
        try:
            have = self.np.get_options()
            dflt = self.np.get_options(defaults=True)
        except BaseException as exc:  # noqa: BLE001
            self.violate("get_options-raises", op, node_id, f"{type(exc).__name__}: {exc}", {"at": where})
            return
        if _norm(have) != _norm(self.model):
            diff = {k: (have.get(k), self.model.get(k)) for k in set(have) | set(self.model) if _norm({k: have.get(k)}) != _norm({k: self.model.get(k)})}
            self.violate("options-match-model", op, node_id, f"{where}: (actual, expected) differ: {diff}", {"at": where})
        if _norm(dflt) != _norm(_DEFAULTS):  # type: ignore[arg-type]
            self.violate("defaults-immutable", op, node_id, f"{where}: get_options(defaults=True) changed", {"at": where})

    def violate(self, clause: str, op: str, node_id: Any, detail: str, where: Optional[dict] = None) -> None:
        rec = core.Violation(clause, op, detail, where, node_id).record()
        if not any(core.vclass(r) == core.vclass(rec) for r in self.violations):
            self.violations.append(rec)
        self.events.append(["violation", node_id, clause, op])

    def resync(self) -> None:
        """After a reported mismatch, continue from the actual state (no 'has
        failed' flag: later steps are checked again against a model that
        follows the real state)."""
        try:
            self.model = dict(self.np.get_options())
        except BaseException:  # noqa: BLE001
            pass

    # -- interpreter -------------------------------------------------------
    def run_body(self, nodes: List[dict]) -> Optional[str]:
        for node in nodes:
            r = self.run_node(node)
            if r in ("return", "break"):
                return r
        return None

    def _kwargs(self, node: dict, with_bad: bool) -> dict:
        kw = dict(node.get("kw", {}))
        if with_bad and node.get("full_table"):
            # the unknown name comes along with a value for every known one (a caller that edits a copy of the whole
            # table and hands it back)
            kw = {**self.np.get_options(), **kw}
            self.bump("probe:unknown_name_with_complete_table")
        if with_bad:
            # the value given to the unknown name: anything, including None and values equal to "nothing"
            bad_value = [1, None, False, "", 0, 1][core.H(self.rs, "badvalue", node.get("id")) % 6]
            if node.get("bad_first"):
                kw = {node["bad"]: bad_value, **kw}
            else:
                kw = {**kw, node["bad"]: bad_value}
        return kw

    def run_node(self, node: dict) -> Optional[str]:
        k = node["k"]
        nid = node.get("id")
        self.history.append(f"{k}@{self.depth}")
        self.events.append(["step", nid, k, self.depth])
        if k == "block":
            return self._block(node)
        if k == "set":
            self.np.set_options(**node["kw"])
            self.model.update(node["kw"])
            self.check(nid, "after-set", "set_options")
            self._sync_if_bad()
            return None
        if k == "set_badvalue":
            # an ill-formed value (an unbalanced regular expression): the statement promises nothing about values,
            # but an update is atomic either way - applied completely if the call returns, not at all if it raises
            self.nontrivial = True
            kw = {**node["kw"], "varname_filter": "(unbalanced"} if not node.get("bad_first") else {"varname_filter": "(unbalanced", **node["kw"]}
            try:
                if node.get("enter"):
                    with self.np.global_options(**kw):
                        pass
                    applied = False  # a block that was entered and left restores everything
                else:
                    self.np.set_options(**kw)
                    applied = True
            except BaseException:  # noqa: BLE001
                applied = False
                self.bump("fault:bad_value.raised")
            if applied:
                self.model.update(kw)
            self.check(nid, "after-bad-value", "set_options" if not node.get("enter") else "global_options")
            self._sync_if_bad()
            if applied:  # do not leave the ill-formed filter behind for later operations
                self.np.set_options(varname_filter=_DEFAULTS["varname_filter"])  # type: ignore[index]
                self.model["varname_filter"] = _DEFAULTS["varname_filter"]  # type: ignore[index]
            return None
        if k == "set_invalid":
            self.nontrivial = True
            self.bump("fault:invalid_key.configured")
            try:
                self.np.set_options(**self._kwargs(node, True))
            except KeyError:
                self.bump("fault:invalid_key.fired")
            except BaseException as exc:  # noqa: BLE001
                self.violate("invalid-key-keyerror", "set_options", nid, f"raised {type(exc).__name__} instead of KeyError")
            else:
                self.violate("invalid-key-keyerror", "set_options", nid, "unknown option accepted without KeyError")
            self.check(nid, "after-invalid-set", "set_options")
            self._sync_if_bad()
            return None
        if k == "enter_invalid":
            self.nontrivial = True
            self.bump("fault:invalid_key.configured")
            entered = False
            try:
                with self.np.global_options(**self._kwargs(node, True)):
                    entered = True
            except KeyError:
                self.bump("fault:invalid_key.fired")
            except BaseException as exc:  # noqa: BLE001
                self.violate("invalid-key-keyerror", "global_options", nid, f"raised {type(exc).__name__} instead of KeyError")
            if entered:
                self.violate("invalid-key-keyerror", "global_options", nid, "unknown option accepted without KeyError")
            self.check(nid, "after-invalid-enter", "global_options")
            self._sync_if_bad()
            return None
        if k == "get_mutate":
            self.nontrivial = True
            return self._get_mutate(node)
        if k == "raise":
            self.nontrivial = True
            self.bump(f"fault:raise_{node['exc']}.fired")
            raise EXC[node["exc"]]("simulated")
        if k == "op":
            return self._op(node)
        if k == "catch":
            try:
                r = self.run_body(node["body"])
            except BaseException as exc:  # noqa: BLE001
                if isinstance(exc, core.HarnessError):
                    raise
                self.events.append(["caught", nid, type(exc).__name__])
                self.history.append(f"caught:{type(exc).__name__}@{self.depth}")
                r = None
            self.check(nid, "after-catch", "global_options")
            self._sync_if_bad()
            return r
        if k == "leave":
            self.nontrivial = True
            self.bump(f"fault:leave_{node['how']}.fired")
            return node["how"]
        if k == "genblock":
            return self._genblock(node)
        if k == "decorated":
            return self._decorated(node)
        if k == "reuse":
            return self._reuse(node)
        if k == "deep":
            return self._deep(node)
        raise core.HarnessError(f"unknown node kind {k}")

    def _sync_if_bad(self) -> None:
        if self.violations:
            self.resync()

    def _block(self, node: dict) -> Optional[str]:
        nid = node.get("id")
        cm = self.np.global_options(**node["kw"])
        if node.get("deferred"):
            # the manager object exists before these steps run; scoping starts when it is entered
            self.nontrivial = True
            self.np.set_options(**node["deferred"])
            self.model.update(node["deferred"])
            self.check(nid, "after-deferred-set", "set_options")
        snapshot = dict(self.model)
        result: Optional[str] = None
        try:
            for _once in (0,):
                with cm as yielded:
                    self.model.update(node["kw"])
                    self.depth += 1
                    self._yielded = yielded
                    self.check(nid, "after-enter", "global_options")
                    if _norm(yielded) != _norm(self.model):
                        self.violate("yielded-dict", "global_options", nid, "dict yielded by global_options differs from the options in force")
                    broke = False
                    for child in node["body"]:
                        r = self.run_node(child)
                        self._yielded = yielded
                        if r == "return":
                            return None  # a real early return through the with statement
                        if r == "break":
                            broke = True
                            break
                    if broke:
                        break  # a real break out of the with statement
        except BaseException:
            self.nontrivial = True
            self.bump("probe:block_left_by_exception")
            raise
        finally:
            self.depth -= 1
            self.model = snapshot
            self.check(nid, "after-exit", "global_options")
            self._sync_if_bad()
        return result

    def _genblock(self, node: dict) -> Optional[str]:
        nid = node.get("id")
        self.nontrivial = True
        np_ = self.np

        def gen():
            with np_.global_options(**node["kw"]):
                yield "entered"
                yield "second"

        snapshot = dict(self.model)
        g = gen()
        next(g)
        self.model.update(node["kw"])
        self.depth += 1
        try:
            self.check(nid, "after-gen-enter", "global_options")
            self.run_body(node["body"])
        finally:
            # innermost again: end the generator-held block
            end = node["end"]
            self.bump(f"fault:gen_{end}.fired")
            try:
                if end == "close":
                    g.close()
                elif end == "throw":
                    try:
                        g.throw(EXC[node["exc"]]("thrown"))
                    except BaseException as exc:  # noqa: BLE001
                        self.events.append(["gen-throw-out", nid, type(exc).__name__])
                else:
                    try:
                        next(g)  # second yield, still inside
                        self.check(nid, "gen-still-open", "global_options")
                        next(g)
                    except StopIteration:
                        pass
            finally:
                self.depth -= 1
                self.model = snapshot
                self.check(nid, "after-gen-exit", "global_options")
                self._sync_if_bad()
        return None

    def _decorated(self, node: dict) -> Optional[str]:
        nid = node.get("id")
        snapshot = dict(self.model)

        @self.np.global_options(**node["kw"])
        def body():
            self.model.update(node["kw"])
            self.depth += 1
            self.check(nid, "after-decorated-enter", "global_options")
            self.run_body(node["body"])

        try:
            body()
        finally:
            self.depth -= 1 if self.depth else 0
            self.model = snapshot
            self.check(nid, "after-decorated-exit", "global_options")
            self._sync_if_bad()
        # a decorated function is reusable: after the surrounding options changed, a second
        # call must scope against the options in force at *that* call
        if node.get("again"):
            self.np.set_options(**node["again"])
            self.model.update(node["again"])
            snapshot2 = dict(self.model)
            try:
                body()
            finally:
                self.depth -= 1 if self.depth else 0
                self.model = snapshot2
                self.check(nid, "after-second-decorated-exit", "global_options")
                self._sync_if_bad()
        return None

    def _deep(self, node: dict) -> Optional[str]:
        """Stack exhaustion as a fault: the block is opened a few frames below the recursion limit, for every
        distance in a window, so that for some distance the entry still fits and anything the exit path does at a
        greater depth does not.  Whatever is raised, the options afterwards are those before the block."""
        import sys

        nid = node.get("id")
        self.nontrivial = True
        np_ = self.np
        kw, inner = node["kw"], node["inner"]
        snapshot = dict(self.model)

        def depth_now() -> int:
            frame, n = sys._getframe(), 0
            while frame is not None:
                n += 1
                frame = frame.f_back
            return n

        def descend(d: int) -> None:
            if d > 0:
                return descend(d - 1)
            with np_.global_options(**kw):
                np_.set_options(**inner)
                if node.get("raise"):
                    raise ValueError("simulated")

        old = sys.getrecursionlimit()
        fired = 0
        for extra in range(node.get("span", 45)):
            sys.setrecursionlimit(depth_now() + 24 + extra)
            try:
                descend(20)
            except RecursionError:
                fired += 1
            except ValueError:
                pass
            finally:
                sys.setrecursionlimit(old)
            self.model = dict(snapshot)
            self.check(nid, "after-deep-block", "global_options")
            if self.violations:
                self.resync()
                try:
                    np_.set_options(**snapshot)
                    self.model = dict(snapshot)
                except BaseException:  # noqa: BLE001
                    pass
                break
        self.bump("fault:recursion_limit.fired", fired)
        self.bump("fault:recursion_limit.configured", node.get("span", 45))
        return None

    def _reuse(self, node: dict) -> Optional[str]:
        """One manager object (or one decorated function) used more than once: while it is still active
        (nested / recursive) or again afterwards.  Whether a second entry of the same object is accepted is not
        the property's business; what it restores on each exit is."""
        nid = node.get("id")
        kw, inner, mode = node["kw"], node["inner"], node["mode"]
        self.nontrivial = True
        self.bump(f"probe:reuse_{mode}")
        np_ = self.np
        snapshot = dict(self.model)

        def set_(options: dict) -> None:
            np_.set_options(**options)
            self.model.update(options)

        if mode == "recursive":
            @np_.global_options(**kw)
            def rec(d: int) -> None:
                self.model.update(kw)
                self.check(nid, "after-recursive-enter", "global_options")
                set_(inner[d])
                if d + 1 < len(inner):
                    snap = dict(self.model)
                    try:
                        rec(d + 1)
                    finally:
                        self.model = snap
                        self.check(nid, "after-recursive-inner-exit", "global_options")
                        self._sync_if_bad()

            try:
                rec(0)
            finally:
                self.model = snapshot
                self.check(nid, "after-recursive-exit", "global_options")
                self._sync_if_bad()
            return None
        manager = np_.global_options(**kw)
        try:
            with manager:
                self.model.update(kw)
                self.check(nid, "after-enter", "global_options")
                set_(inner[0])
                if mode == "nested":
                    snap = dict(self.model)
                    entered = False
                    try:
                        with manager:
                            entered = True
                            self.model.update(kw)
                            self.check(nid, "after-reenter", "global_options")
                            set_(inner[1])
                    except BaseException as exc:  # noqa: BLE001
                        if isinstance(exc, (core.HarnessError, core.SimInterrupt)):
                            raise
                        self.bump("probe:reentry_refused" if not entered else "probe:reentry_raised")
                    finally:
                        self.model = snap
                        self.check(nid, "after-reentry-exit", "global_options")
                        self._sync_if_bad()
        finally:
            self.model = snapshot
            self.check(nid, "after-exit", "global_options")
            self._sync_if_bad()
        if mode == "sequential":
            set_(inner[1])
            snap = dict(self.model)
            entered = False
            try:
                with manager:
                    entered = True
                    self.model.update(kw)
                    self.check(nid, "after-second-enter", "global_options")
                    set_(inner[0])
            except BaseException as exc:  # noqa: BLE001
                if isinstance(exc, (core.HarnessError, core.SimInterrupt)):
                    raise
                self.bump("probe:reentry_refused" if not entered else "probe:reentry_raised")
            finally:
                self.model = snap
                self.check(nid, "after-second-exit", "global_options")
                self._sync_if_bad()
        return None

    def _get_mutate(self, node: dict) -> Optional[str]:
        nid = node.get("id")
        which = node["which"]
        if which == "yielded" and getattr(self, "_yielded", None) is None:
            which = "current"
        if which == "current":
            d = self.np.get_options()
        elif which == "defaults":
            d = self.np.get_options(defaults=True)
        else:
            d = self._yielded
        key = sorted(d)[core.H(self.rs, "mut", nid) % len(d)]
        old = d[key]
        d[key] = "MUTATED"
        d["__extra__"] = 1
        self.bump("fault:mutate_returned_dict.fired")
        try:
            self.check(nid, f"after-mutate-{which}", "get_options")
        finally:
            # undo our own mutation so that, if the dict was live, the damage does not persist
            d[key] = old
            d.pop("__extra__", None)
        self._sync_if_bad()
        return None

    def _op(self, node: dict) -> Optional[str]:
        nid = node.get("id")
        desc = node["op"]
        fault = node.get("fault")
        env = self.env
        assert env is not None
        env.begin_step(nid)
        self.bump(f"op:{desc['op']}")

        def thunk():
            args, kwargs = ops.build_args(desc)
            return ops.call(desc, args, kwargs)

        try:
            if fault is None:
                try:
                    thunk()
                    self.events.append(["op-ok", nid])
                finally:
                    self.check(nid, "after-op", desc["op"])
                    self._sync_if_bad()
                return None
            self.nontrivial = True
            kind = fault["kind"]
            self.bump(f"fault:op_{kind}.configured")
            # a fault-free dry run of the same step measures the number of
            # candidate positions; once chosen, the position is a literal of the plan.
            if kind in ("line", "interleave"):
                tr = seams.LineTracer(NUMPOLY_DIR)
                try:
                    tr.run(thunk)
                except BaseException:  # noqa: BLE001
                    pass
                total = tr.count
            else:
                env.alloc_index = 0
                try:
                    thunk()
                except BaseException:  # noqa: BLE001
                    pass
                total = env.alloc_index
            if "k" not in fault:
                fault["n"] = total
                fault["k"] = 1 + fault["u"] % total if total else 0
            self.check(nid, "after-dry-run", desc["op"])
            self._sync_if_bad()
            k = fault["k"]
            if not k:
                self.bump("undecided:no-fault-position")
                return None
            try:
                if kind == "interleave":
                    # a second thread of the process calls set_options at this instant of the operation (the schedule
                    # is the position k); the operation itself has no business writing options, so afterwards the
                    # other thread's update stands
                    other = fault.get("kw") or {}

                    def other_thread() -> None:
                        self.np.set_options(**other)
                        self.model.update(other)
                        self.bump("fault:op_interleave.fired")

                    tr = seams.LineTracer(NUMPOLY_DIR, k=k, action=other_thread)
                    try:
                        tr.run(thunk)
                    finally:
                        self.bump("traced_lines", tr.count)
                        if tr.fired:
                            self.events.append(["interleaved-set", nid, tr.fired])
                elif kind == "line":
                    tr = seams.LineTracer(NUMPOLY_DIR, k=k)
                    try:
                        tr.run(thunk)
                    finally:
                        self.bump("traced_lines", tr.count)
                        if tr.fired:
                            self.bump("fault:op_line.fired")
                            self.events.append(["fault-line", nid, tr.fired])
                else:
                    env.begin_step(nid)
                    env.alloc_fail_at = k
                    try:
                        thunk()
                    finally:
                        env.alloc_fail_at = None
            finally:
                self.check(nid, "after-faulted-op", desc["op"])
                self._sync_if_bad()
        except core.Undecided as exc:
            self.bump(f"undecided:{exc.reason}")
        return None


def execute(plan: dict) -> dict:
    setup()
    import numpoly

    interp = Interp(plan)
    # harness hygiene: known starting state
    _reset(numpoly)
    with seams.Env(plan["run_seed"], sort="stable", fill=None) as env:
        interp.env = env
        try:
            if plan.get("options_at_start"):
                numpoly.set_options(**plan["options_at_start"])
                interp.model.update(plan["options_at_start"])
            interp.check("start", "start", "set_options")
            interp._yielded = None
            import warnings

            with warnings.catch_warnings():
                if plan.get("warnings") == "error":
                    warnings.simplefilter("error")
                    interp.bump("fault:warnings_as_errors.configured")
                try:
                    interp.run_body(plan["steps"])
                except BaseException as exc:  # noqa: BLE001  (top level: everything is caught here)
                    if isinstance(exc, core.HarnessError):
                        raise
                    if isinstance(exc, Warning):
                        interp.bump("fault:warnings_as_errors.fired")
                    interp.events.append(["top-caught", type(exc).__name__])
                    interp.history.append(f"top:{type(exc).__name__}")
            interp.check("end", "end", "global_options")
        finally:
            interp.stats.update({k: interp.stats.get(k, 0) + v for k, v in env.counters.items()})
    if not _reset(numpoly):
        interp.bump("probe:worker_state_polluted")
    sigs = ["|".join(interp.history)] if interp.nontrivial else []
    return {"violations": interp.violations, "events": interp.events, "stats": interp.stats, "sigs": sigs}


def _reset(numpoly: Any) -> bool:
    try:
        numpoly.set_options(**_DEFAULTS)  # type: ignore[arg-type]
        if _norm(numpoly.get_options()) == _norm(_DEFAULTS):  # type: ignore[arg-type]
            return True
    except BaseException:  # noqa: BLE001
        pass
    try:
        live = numpoly.option._NUMPOLY_OPTIONS
        live.clear()
        live.update(_DEFAULTS)  # type: ignore[arg-type]
        dflt = numpoly.option.GLOBAL_OPTIONS_DEFAULTS
        dflt.clear()
        dflt.update(_DEFAULTS)  # type: ignore[arg-type]
    except BaseException:  # noqa: BLE001
        pass
    return False


# ---------------------------------------------------------------------------
# minimiser support


def repair_plan(plan: dict) -> Optional[dict]:
    return plan


def _walk(nodes: List[dict], path: tuple = ()):
    for i, node in enumerate(nodes):
        yield path + (i,), node
        if "body" in node:
            yield from _walk(node["body"], path + (i, "body"))


def _replace(nodes: List[dict], path: tuple, new: Optional[List[dict]]) -> List[dict]:
    """Copy of nodes with the node at `path` replaced by the list `new`."""
    i = path[0]
    if len(path) == 1:
        return nodes[:i] + (new or []) + nodes[i + 1:]
    node = dict(nodes[i])
    node["body"] = _replace(node["body"], path[2:], new)
    return nodes[:i] + [node] + nodes[i + 1:]


def simplify(plan: dict):
    steps = plan["steps"]
    if plan.get("options_at_start"):
        yield dict(plan, options_at_start={})
    if plan.get("warnings"):
        yield {k: v for k, v in plan.items() if k != "warnings"}
    for path, node in list(_walk(steps)):
        # delete the node
        yield dict(plan, steps=_replace(steps, path, []))
        # hoist the body
        if "body" in node:
            yield dict(plan, steps=_replace(steps, path, node["body"]))
        # fewer kwargs
        kw = node.get("kw")
        if kw and len(kw) > (0 if node["k"] in ("set_invalid", "enter_invalid") else 1):
            for key in sorted(kw):
                yield dict(plan, steps=_replace(steps, path, [dict(node, kw={k: v for k, v in kw.items() if k != key})]))
        if node["k"] == "genblock":
            yield dict(plan, steps=_replace(steps, path, [dict(node, k="block")]))
        if node["k"] == "op" and node.get("fault") and node["fault"].get("k", 0) > 1:
            yield dict(plan, steps=_replace(steps, path, [dict(node, fault=dict(node["fault"], k=1))]))
        if node["k"] == "op" and node.get("fault"):
            yield dict(plan, steps=_replace(steps, path, [{"k": "raise", "exc": "ValueError", "id": node.get("id")}]))
