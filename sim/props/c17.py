"""C17 — operations never modify their arguments, whether the call returned or raised.

Fault space: no fault; natural error (spoiled arguments); asynchronous
interrupt at executed line k of numpoly code; MemoryError at the k-th ndpoly
allocation.  Oracle: byte-level snapshot of every argument before/after.
"""
from __future__ import annotations

import json
from typing import Any, Dict, List, Optional

import numpy

from .. import prelude, core, model, ops, seams
from ..runner import NUMPOLY_DIR

ID = "C17"
LEVEL = "fault_enumeration"
RULE = (
    "each step calls one public numpoly callable (181-entry catalogue: functions, numpy spellings, operators incl. reflected, "
    "methods, properties) on generated C01-space arguments (incl. already-aligned operands and plain-array partners); run "
    "classes: fault-free, natural-error (spoiled arguments), line interrupt at position k of N (N measured by a fault-free dry "
    "run; quick: 5 positions per step incl. first/last, thorough: every k for N<=1500 else 60 positions), MemoryError at "
    "allocation k (every k). Distinct non-trivial = distinct (op, fault kind, file:line where the fault fired | exception type "
    "| 'returned' x operand classes) tuples."
)
COMPONENTS = {
    "real": ["every numpoly callable in the catalogue", "compiled cfunctions", "numpy"],
    "stand_ins": ["source of asynchronous exceptions (sys.settrace line interrupt in numpoly frames)", "allocation failure (ndpoly.__new__ wrapper raising MemoryError)"],
}
ASSUMPTIONS = [
    "explicit output targets (out=, copyto destination) are not generated",
    "Cython frames are invisible to the tracer and run to completion",
    "arguments are freshly built (contiguous) arrays; user-made exotic views are not generated",
]


def setup() -> None:
    ops.ensure()


def budget(tier: str) -> int:
    return 2000 if tier == "quick" else 3000


# ---------------------------------------------------------------------------


def _spoil(ch: core.Chooser, desc: dict) -> dict:
    """Turn a valid call into one that (most likely) raises naturally."""
    d = json.loads(json.dumps(desc))
    name = d["op"]
    polys = [i for i, a in enumerate(d["args"]) if isinstance(a, dict) and "poly" in a]
    mode = ch.below(4)
    if "axis" in d["kwargs"] or mode == 0:
        d["kwargs"]["axis"] = 7
    elif name in ("derivative",) or mode == 1:
        if name == "derivative":
            d["args"] = d["args"][:1] + ["q77"]
        elif name == "call":
            d["kwargs"]["q99"] = {"scalar": 1}
        else:
            d["kwargs"]["no_such_keyword"] = 1
    elif len(polys) >= 2 or mode == 2:
        # incompatible shapes
        if len(polys) >= 2:
            lit = d["args"][polys[1]]["poly"]
            bad = [3, 2] if lit["shape"] != [3, 2] else [2, 5]
            size = int(numpy.prod(bad))
            lit["shape"] = bad
            lit["coefficients"] = [([c[0]] * size) if c else [0] * size for c in lit["coefficients"]]
            first = d["args"][polys[0]]["poly"]
            if first["shape"] in ([], [1], [2], [3, 2]):
                size1 = 4
                first["shape"] = [4]
                first["coefficients"] = [([c[0]] * size1) if c else [0] * size1 for c in first["coefficients"]]
        else:
            d["args"].append({"scalar": "junk"})
    else:
        d["args"] = d["args"] + [{"scalar": "surplus"}]
    d["spoiled"] = True
    return d


TRUTHINESS = {"any", "all", "logical_and", "logical_or", "logical_not", "count_nonzero", "nonzero", "where", "isfinite"}


def _reorder_names(desc: dict) -> dict:
    """The same polynomials with their indeterminates listed in the opposite order (names and exponent columns
    reversed together): legal, and not what alignment produces."""
    d = json.loads(json.dumps(desc))
    for a in d["args"]:
        if isinstance(a, dict) and isinstance(a.get("poly"), dict) and len(a["poly"].get("names", [])) >= 2:
            lit = a["poly"]
            lit["names"] = lit["names"][::-1]
            lit["exponents"] = [e[::-1] for e in lit["exponents"]]
    return d


def _retype(ch: core.Chooser, desc: dict) -> dict:
    """Other coefficient dtypes for polynomial arguments (a conversion that is a no-op for one dtype hands the
    argument's own memory on: 'copy only if needed' goes wrong exactly for the dtype that needs no copy)."""
    truthy = desc.get("op", "").split(".")[-1] in TRUTHINESS  # functions that only ask "is it zero": bool data is their home ground
    if not ch.chance(0.5 if truthy else 0.25):
        return desc
    d = json.loads(json.dumps(desc))
    dt = ch.choice(["bool", "bool", "int32", "uint8", "float32", "int8", "float64", "int64"] + (["bool"] * 6 if truthy else []))
    for a in d["args"]:
        if isinstance(a, dict) and isinstance(a.get("poly"), dict) and a["poly"].get("dtype") in ("int64", "float64"):
            lit = a["poly"]
            try:
                if dt == "bool":
                    cols = [[bool(v) for v in col] for col in lit["coefficients"]]
                    if len(cols) >= 2 and cols[0]:  # an element that is zero in the first term and non-zero in a later one
                        cols[0][0], cols[-1][0] = False, True
                elif dt.startswith("float"):
                    cols = [[float(numpy.dtype(dt).type(v)) for v in col] for col in lit["coefficients"]]
                elif dt == "uint8":
                    cols = [[abs(int(v)) % 256 for v in col] for col in lit["coefficients"]]
                else:
                    cols = [[max(-100, min(100, int(v))) for v in col] for col in lit["coefficients"]]
            except (TypeError, ValueError, OverflowError):
                continue
            lit["coefficients"], lit["dtype"] = cols, dt
    return d


def generate(rs: int, tier: str, index: int) -> dict:
    setup()
    ch = core.Chooser(rs, "plan")
    cls = ["free", "natural", "line", "line", "alloc"][index % 5]
    nsteps = ch.between(2, 4)
    steps = []
    all_names = ops.names()
    for i in range(nsteps):
        c = ch.sub(i)
        # make sure the whole catalogue is visited: round-robin on (index, i) plus weights
        if c.chance(0.5):
            name = all_names[(index * 7 + i) % len(all_names)]
            desc = ops.gen_op(c.sub("op"), only=[name])
        else:
            desc = ops.gen_op(c.sub("op"))
        desc = _retype(c.sub("retype"), desc)
        if c.sub("alias").chance(0.08):
            desc = dict(desc, alias=True)
        if c.sub("names").chance(0.12):
            desc = _reorder_names(desc)
        if c.sub("view").chance(0.12):
            desc = dict(desc, view=c.sub("view").choice(["T", "rev"]))
        step: Dict[str, Any] = {"id": i, "op": desc}
        if cls == "natural":
            step["op"] = _spoil(c.sub("spoil"), desc)
        elif cls == "line":
            step["fault"] = {"kind": "line", "mode": "all" if tier == "thorough" else "some", "u": c.u64()}
        elif cls == "alloc":
            step["fault"] = {"kind": "alloc", "mode": "all", "u": c.u64()}
        steps.append(step)
    plan = {"property": ID, "run_seed": rs, "tier": tier, "prelude": prelude.gen_prelude(core.Chooser(rs, "prelude")), "class": cls, "steps": steps}
    ce = ch.sub("environment")
    if ce.chance(0.25):
        # process-wide settings in force during the calls: warnings escalated to errors (python -W error) and/or numpy's
        # floating-point error state set to raise; both turn conditions that are normally silent into exceptions
        # arriving in the middle of an operation
        plan["environment"] = ce.choice([{"warnings": "error"}, {"errstate": "raise"}, {"warnings": "error", "errstate": "raise"}])
    return plan


# ---------------------------------------------------------------------------
# snapshots


def snap(obj: Any, depth: int = 0) -> Any:
    import numpoly

    if isinstance(obj, numpoly.ndpoly):
        try:
            coefs = obj.coefficients
            return ("ndpoly", obj.shape, str(obj.dtype), tuple(obj.names), numpy.asarray(obj.exponents).tolist(),
                    [numpy.asarray(c).tobytes() for c in coefs], [str(numpy.asarray(c).dtype) for c in coefs],
                    [numpy.asarray(c).shape for c in coefs], [str(k) for k in obj.keys.tolist()],
                    [str(n) for n in (numpy.ndarray.view(obj, numpy.ndarray).dtype.names or ())])
        except Exception as exc:  # noqa: BLE001  (the object can no longer be read through its own accessors)
            return ("ndpoly-unreadable", f"{type(exc).__name__}: {exc}")
    if isinstance(obj, numpy.ndarray):
        return ("ndarray", obj.shape, str(obj.dtype), obj.tobytes())
    if isinstance(obj, (list, tuple)):
        return (type(obj).__name__, [snap(x, depth + 1) for x in obj])
    if isinstance(obj, dict):
        return ("dict", [(repr(k), snap(v, depth + 1)) for k, v in obj.items()])
    if isinstance(obj, slice):
        return ("slice", repr(obj))
    return (type(obj).__name__, repr(obj))


def snap_diff(a: Any, b: Any) -> str:
    if a == b:
        return ""
    if isinstance(a, tuple) and isinstance(b, tuple) and a and b and a[0] == b[0] == "ndpoly":
        labels = ["kind", "shape", "dtype", "names", "exponents", "coefficient bytes", "coefficient dtypes", "coefficient shapes", "keys", "storage field names"]
        return ", ".join(lbl for lbl, x, y in zip(labels, a, b) if x != y) + " changed"
    if isinstance(b, tuple) and b and b[0] == "ndpoly-unreadable":
        return f"the argument can no longer be read ({b[1]})"
    if isinstance(a, tuple) and isinstance(b, tuple) and len(a) == 2 and isinstance(a[1], list) and isinstance(b[1], list):
        for i, (x, y) in enumerate(zip(a[1], b[1])):
            if x != y:
                return f"[{i}] " + snap_diff(x, y)
    return "value changed"


def _globals_snapshot() -> Any:
    import numpoly

    return (json.dumps({k: repr(v) for k, v in numpoly.get_options().items()}, sort_keys=True),
            len(numpoly.FUNCTION_COLLECTION), len(numpoly.UFUNC_COLLECTION),
            tuple(sorted(getattr(f, "__name__", repr(f)) for f in numpoly.FUNCTION_COLLECTION)))


# ---------------------------------------------------------------------------


class Runner:
    def __init__(self, plan: dict, env: seams.Env):
        self.plan = plan
        self.env = env
        self.violations: List[dict] = []
        self.events: List[Any] = []
        self.stats: Dict[str, int] = {}
        self.sigs: set = set()

    def bump(self, key: str, n: int = 1) -> None:
        self.stats[key] = self.stats.get(key, 0) + n

    def violate(self, clause: str, op: str, sid: Any, detail: str, where: dict) -> None:
        rec = core.Violation(clause, op, detail, where, sid).record()
        if not any(core.vclass(r) == core.vclass(rec) for r in self.violations):
            self.violations.append(rec)
        self.events.append(["violation", sid, clause, op, where])

    def _environment(self) -> Any:
        import contextlib
        import warnings

        stack = contextlib.ExitStack()
        envd = self.plan.get("environment") or {}
        if envd.get("warnings") == "error":
            stack.enter_context(warnings.catch_warnings())
            warnings.simplefilter("error")
        if envd.get("errstate") == "raise":
            stack.enter_context(numpy.errstate(all="raise"))
        return stack

    def one_call(self, step: dict, mode: str, k: Optional[int]) -> Optional[str]:
        """Build fresh arguments, snapshot, call under the given fault, compare.
        Returns the outcome label."""
        desc = step["op"]
        sid = step["id"]
        env = self.env
        env.begin_step(sid)
        try:
            args, kwargs = ops.build_args(desc)
        except core.Undecided as exc:
            self.bump(f"undecided:{exc.reason}")
            return None
        parents = list(ops.LAST_PARENTS)
        outs = set(desc.get("outputs", []))  # declared output targets (a copyto destination) are meant to change
        watched = [a for i, a in enumerate(args) if i not in outs]
        before = snap((watched, kwargs, parents))
        if "ndpoly-unreadable" in repr(before)[:100000]:
            self.bump("undecided:argument-unreadable-before-call")
            return None
        gbefore = _globals_snapshot()
        outcome = "returned"
        fired = None
        tracer = None
        try:
          with self._environment():
            if mode == "line" or mode == "count":
                tracer = seams.LineTracer(NUMPOLY_DIR, k=k if mode == "line" else None)
                try:
                    tracer.run(lambda: ops.call(desc, args, kwargs))
                finally:
                    self.bump("traced_lines", tracer.count)
            elif mode == "alloc":
                env.begin_step(sid)
                env.alloc_fail_at = k
                try:
                    ops.call(desc, args, kwargs)
                finally:
                    env.alloc_fail_at = None
            else:
                ops.call(desc, args, kwargs)
        except core.SimInterrupt as exc:
            if tracer is not None and tracer.over_budget:
                self.bump("undecided:line-budget")
                return None
            outcome = "interrupted"
            fired = str(exc)
            self.bump("fault:line_interrupt.fired")
        except MemoryError:
            outcome = "memoryerror"
            self.bump("fault:alloc_memoryerror.fired.surfaced")
        except core.HarnessError:
            raise
        except BaseException as exc:  # noqa: BLE001
            outcome = "raised:" + type(exc).__name__
            self.bump("outcome:natural_raise")
            if isinstance(exc, (Warning, FloatingPointError)) and self.plan.get("environment"):
                self.bump("fault:environment_escalation.fired")
        after = snap((watched, kwargs, parents))
        self.bump("decided")
        self.bump(f"op:{desc['op']}")
        label = {"none": "free", "count": "free", "line": "line", "alloc": "alloc"}[mode]
        if before != after:
            where = {"fault": label, "outcome": outcome.split(":")[0]}
            detail = f"{snap_diff(before, after)}; outcome={outcome}" + (f"; fault at {fired}" if fired else "") + (f"; k={k}" if k else "")
            self.violate("argument-unchanged", desc["op"], sid, detail, where)
            if mode in ("line", "alloc") and isinstance(step.get("fault"), dict):
                # literal positions for the replay / minimiser (one per violation class is enough; keep a few)
                found = step["fault"].setdefault("found", {})
                found.setdefault(outcome.split(":")[0], k)  # the first position of every violation class
        if mode in ("line", "alloc") and outcome != "returned":
            gafter = _globals_snapshot()
            if gafter != gbefore:
                self.violate("globals-unchanged-after-fault", desc["op"], sid, "option dict or dispatch registries changed by a failed call", {"fault": label})
        self.events.append(["call", sid, desc["op"], mode, k, outcome, fired])
        if outcome == "interrupted":
            self.sigs.add(f"{desc['op']}|line|{fired}")
        elif outcome == "memoryerror":
            self.sigs.add(f"{desc['op']}|alloc|{k}")
        elif outcome.startswith("raised"):
            self.sigs.add(f"{desc['op']}|{outcome}")
        else:
            self.sigs.add(f"{desc['op']}|returned|" + ",".join(sorted(a) [0] if isinstance(a, dict) else type(a).__name__ for a in desc["args"]))
        if tracer is not None:
            self._last_count = tracer.count
        return outcome

    def run_step(self, step: dict) -> None:
        fault = step.get("fault")
        if not fault:
            self.one_call(step, "none", None)
            return
        kind = fault["kind"]
        self.bump(f"fault:{kind}.configured")
        if kind == "line":
            self._last_count = 0
            if self.one_call(step, "count", None) is None:
                return
            total = self._last_count
            fault["n"] = total
            if not total:
                self.bump("undecided:no-fault-position")
                return
            if fault.get("mode") == "one":
                ks = [min(k, total) for k in fault["ks"]]
            elif fault.get("mode") == "all":
                if total <= 1500:
                    ks = list(range(1, total + 1))
                else:
                    ch = core.Chooser(self.plan["run_seed"], "fault", step["id"], fault["u"])
                    ks = sorted({1, total} | {1 + ch.below(total) for _ in range(60)})
            else:
                ch = core.Chooser(self.plan["run_seed"], "fault", step["id"], fault["u"])
                ks = sorted({1, total} | {1 + ch.below(total) for _ in range(3)})
            for k in ks:
                self.one_call(step, "line", k)
            self._freeze(fault)
        else:
            self.env.begin_step(step["id"])
            if self.one_call(step, "none", None) is None:
                return
            total = self.env.alloc_index
            fault["n"] = total
            if fault.get("mode") == "one":
                ks = list(fault["ks"])
            else:
                ks = list(range(1, min(total, 200) + 1))
            for k in ks:
                self.one_call(step, "alloc", k)
            self._freeze(fault)

    @staticmethod
    def _freeze(fault: dict) -> None:
        """After a search that found violating positions, the plan carries them as literals."""
        found = fault.pop("found", None)
        if found and fault.get("mode") != "one":
            fault["mode"] = "one"
            fault["ks"] = sorted(set(found.values()))


def execute(plan: dict) -> dict:
    setup()
    import warnings

    with warnings.catch_warnings():
        warnings.simplefilter("ignore")
        with numpy.errstate(all="ignore"), seams.Env(plan["run_seed"], sort="stable", fill=None) as env:
            runner = Runner(plan, env)
            prelude.run_prelude(plan.get("prelude"), runner.stats)
            for step in plan["steps"]:
                runner.run_step(step)
            for key, value in env.counters.items():
                runner.stats[key] = runner.stats.get(key, 0) + value
    return {"violations": runner.violations, "events": runner.events, "stats": runner.stats, "sigs": sorted(runner.sigs)}


def simplify(plan: dict):
    if plan.get("environment"):
        yield {k: v for k, v in plan.items() if k != "environment"}
    if plan.get("prelude"):
        yield dict(plan, prelude=None)
        for i in range(len(plan["prelude"])):
            yield dict(plan, prelude=plan["prelude"][:i] + plan["prelude"][i + 1:] or None)
    for i, step in enumerate(plan["steps"]):
        desc = step["op"]
        # drop the fault (is it a fault-free violation?)
        if step.get("fault"):
            yield dict(plan, steps=plan["steps"][:i] + [dict(step, fault=None)] + plan["steps"][i + 1:])
            ks = step["fault"].get("ks") or []
            if len(ks) > 1:
                for k in ks:
                    yield dict(plan, steps=plan["steps"][:i] + [dict(step, fault=dict(step["fault"], ks=[k]))] + plan["steps"][i + 1:])
        # shrink polynomial arguments
        for j, arg in enumerate(desc["args"]):
            if isinstance(arg, dict) and "poly" in arg:
                for lit in model.lit_shrinks(arg["poly"]):
                    nd = dict(desc, args=desc["args"][:j] + [{"poly": lit}] + desc["args"][j + 1:])
                    yield dict(plan, steps=plan["steps"][:i] + [dict(step, op=nd)] + plan["steps"][i + 1:])
        for key in list(desc.get("kwargs", {})):
            nd = dict(desc, kwargs={k: v for k, v in desc["kwargs"].items() if k != key})
            yield dict(plan, steps=plan["steps"][:i] + [dict(step, op=nd)] + plan["steps"][i + 1:])
