"""C11 — on constant polynomials every mirrored function behaves exactly like numpy.

Seam-dependent clauses: argmax/argmin (first occurrence on ties) and the
amax/amin/max/min family go through sortable_proxy's sorts (tie order), and
every mirrored function allocates through ndpoly.__new__ (heap content).
The remaining clauses ride along on the free oracle: numpy itself.
"""
from __future__ import annotations

from typing import Any, Callable, Dict, List, Optional

import numpy

from .. import prelude, core, model, seams
from ..runner import NUMPOLY_DIR

ID = "C11"
LEVEL = "exploration"
FILLS = ["zero", "a5", "ff", "prng", "stale"]
POLICIES = ["stable", "reversed", "rotated", "prng"]
RULE = (
    "for every registered numpy function with an argument generator: numeric arrays of 0-3 dims with repeated values, negatives, "
    "zeros, ints and floats wrapped as constant polynomials (sometimes with unused names / retained zero non-constant terms) and "
    "every axis/keepdims/n/decimals argument numpy accepts for the shape; executed under (tie policy, heap fill) environments "
    "(stable/zero + 2 seeded, thorough: 8) and compared with numpy on the raw arrays; non-constant divisors must raise "
    "FeatureNotSupported. Distinct non-trivial = distinct (function, arguments, environment) where the data contain a repeated "
    "value (tie seam has a choice) or the function allocates a result polynomial (heap seam has a choice)."
)
COMPONENTS = {
    "real": ["every mirrored numpoly function (FUNCTION_COLLECTION/UFUNC_COLLECTION)", "numpy as the oracle on raw arrays"],
    "stand_ins": ["tie order of unstable argsort", "bytes of freshly allocated ndpoly / numpy.empty buffers"],
}
ASSUMPTIONS = [
    "text functions (array_str/array_repr: C16), savetxt (C13) and copyto (output target) are not compared",
    "only the direction 'numpy returns => numpoly returns the same' is asserted; calls numpy rejects are counted, not judged",
]

SHAPES = [(), (1,), (3,), (4,), (5,), (2, 2), (2, 3), (3, 2), (1, 3), (2, 1, 3), (2, 2, 2), (2, 3, 2)]


# functions whose method form the library's own tests exercise (conftest "method" interface) and ndarray has
METHODS = {"any", "all", "cumsum", "diagonal", "mean", "max", "min", "nonzero", "prod", "reshape", "sum"}


def setup() -> None:
    pass


def budget(tier: str) -> int:
    return 12000 if tier == "quick" else 240000


# ---------------------------------------------------------------------------
# generators


def _vals(ch: core.Chooser, shape: tuple, kind: str, nonzero: bool = False) -> dict:
    size = int(numpy.prod(shape, dtype=int))
    if kind == "int":
        pool = [-3, -2, -1, 0, 0, 1, 1, 2, 2, 3] if not nonzero else [-3, -2, -1, 1, 1, 2, 2, 3]
    elif kind == "largeint":  # does not fit int8/int16: a result squeezed into a narrower dtype shows
        pool = [1000, -1000, 300, 129, 70000, 3, -7, 100000] if not nonzero else [1000, -300, 129, 70000, 3, -7]
    elif kind == "largefloat":  # not representable in float32
        pool = [16777217.0, 1e10 + 1, -33554433.0, 0.1, 3.0, 1.0 / 3] if not nonzero else [16777217.0, 1e10 + 1, 3.0, 1.0 / 3]
    elif kind == "bigint":  # differences of these wrap around in int64
        pool = [2**62, -(2**62), 2**63 - 1, -(2**63), -1, 0, 1, -(2**63) + 1]
    elif kind in ("uint8", "uint64"):  # differences of unsigned numbers wrap
        pool = [0, 1, 2, 3, 200, 255] if kind == "uint8" else [0, 1, 2, 3, 2**63, 2**64 - 1]
    elif kind == "inf":
        pool = [float("inf"), float("-inf"), 0.0, 1.5, -2.0, float("inf")]
    elif kind == "bool":
        pool = [True, False, True]
    elif kind == "nan":
        pool = [float("nan"), 1.0, -2.0, 0.0, float("nan"), 3.5]
    else:
        pool = [-2.5, -1.0, -0.75, 0.0, 0.0, 0.25, 0.25, 1.0, 1.5, 3.0] if not nonzero else [-2.5, -1.0, -0.5, 0.25, 0.5, 1.0, 2.0]
        if ch.sub("awkward").chance(_AWKWARD[0]):  # numbers that are not exact in narrow floats, and sums that are not either
            pool = pool + [0.1, 33.3, 99.9, -0.7, 1.0 / 3]
    # few distinct values => many ties
    if ch.chance(0.4):
        pool = ch.sample(pool, min(len(pool), 3))
    data = [ch.choice(pool) for _ in range(size)]
    dtype = {"int": "int64", "float": "float64", "bool": "bool", "bigint": "int64", "uint8": "uint8", "uint64": "uint64", "inf": "float64", "nan": "float64", "largeint": "int64", "largefloat": "float64"}[kind]
    dress = ch.below(3)
    if len(shape) >= 2 and ch.sub("layout").chance(0.15):
        dress = 3  # the same values held as a transposed (column-major) view
    elif ch.sub("layout").chance(0.08):
        dress = 4  # a polynomial whose storage is read-only (a view of a frozen array)
    return {"const": model.lit_array(numpy.array(data, dtype=dtype).reshape(shape), dtype), "dress": dress}


_FORCED_KIND: List[Optional[str]] = [None]
_AWKWARD: List[float] = [0.0]
# reductions numpoly hands to numpy lane by lane: the width of the accumulator shows in the last bits.  (Products and
# contractions - prod, inner, matmul, outer - are computed by numpoly's own loops in the operand precision; with inexact
# narrow-float data they legitimately differ from numpy's wider accumulators, so they get no such data.)
PRECISION_SENSITIVE = {"mean", "sum", "cumsum"}


def _kind(ch: core.Chooser) -> str:
    if _FORCED_KIND[0] is not None:
        return _FORCED_KIND[0]
    # (bool and NaN data are outside the quantifier - "ints and floats ... repeated values, negatives, zeros" - and numpoly
    #  differs from numpy there on the unchanged tree: True+True is 2, NaN does not propagate through maximum/min/argmin)
    return ch.weighted([(6, "int"), (4, "float"), (1, "largeint"), (1, "largefloat")])


def _axis_kwargs(ch: core.Chooser, shape: tuple, keepdims: bool = False, tuples: bool = True, none_ok: bool = True) -> dict:
    nd = len(shape)
    opts: List[Any] = ([None] if none_ok else []) + list(range(nd)) + ([-1] if nd else [])
    if tuples and nd >= 2:
        opts += [{"tuple": [0, 1]}, {"tuple": [nd - 1, 0]}, {"tuple": [-1, 0]}, {"tuple": [-1, -2]}]
        if nd >= 3:
            opts += [{"tuple": [2, 0]}, {"tuple": [1, 2, 0]}, {"tuple": [-2, -3]}]
    kw: Dict[str, Any] = {}
    if opts:
        axis = ch.choice(opts)
        if axis is not None:
            kw["axis"] = axis
    if keepdims and ch.chance(0.4):
        kw["keepdims"] = True
    return kw


def g_unary(ch: core.Chooser, name: str) -> dict:
    shape = ch.choice(SHAPES)
    kind = "float" if name in ("ceil", "floor", "rint", "around", "round", "isfinite") and ch.chance(0.8) else _kind(ch)
    kw: Dict[str, Any] = {}
    if name in ("around", "round") and ch.chance(0.7):
        kw["decimals"] = ch.choice([0, 1, -1])
    return {"args": [_vals(ch.sub("a"), shape, kind)], "kwargs": kw}


def g_binary(ch: core.Chooser, name: str) -> dict:
    shape = ch.choice(SHAPES)
    kind = _kind(ch)
    if name in ("logical_and", "logical_or") and ch.chance(0.5):
        kind = "bool"
    pshape = model.broadcast_partner_shape(ch.sub("ps"), shape) if ch.chance(0.4) else shape
    a = _vals(ch.sub("a"), shape, kind)
    if name == "power":
        b = _vals(ch.sub("b"), pshape, "int")
        b["const"]["flat"] = [abs(v) % 4 for v in b["const"]["flat"]]
    elif name in ("divide", "true_divide", "floor_divide", "remainder", "divmod"):
        b = _vals(ch.sub("b"), pshape, kind, nonzero=True)
    else:
        b = _vals(ch.sub("b"), pshape, kind if ch.chance(0.7) else _kind(ch))
        if ch.chance(0.3):  # make ties across operands
            b["const"]["flat"] = (a["const"]["flat"] * 8)[: len(b["const"]["flat"])] if a["const"]["dtype"] == b["const"]["dtype"] else b["const"]["flat"]
    ordering = name in ("less", "less_equal", "greater", "greater_equal", "equal", "not_equal", "maximum", "minimum")
    if name in ("isclose", "allclose") and ch.sub("asym").chance(0.2):
        # numpy's test |a-b| <= atol + rtol*|b| is not symmetric: pairs that sit between the two readings
        base = [9.0, 10.0, 90.0, 100.0, 10.0, 9.0]
        n_el = int(numpy.prod(shape, dtype=int))
        fa = [base[i % 6] for i in range(n_el)]
        fb = [base[(i + 1) % 6] if i % 2 == 0 else base[(i - 1) % 6] for i in range(n_el)]
        if name == "allclose":  # every pair close in numpy's reading, none in the mirrored one
            fa, fb = [[9.0, 90.0][i % 2] for i in range(n_el)], [[10.0, 100.0][i % 2] for i in range(n_el)]
        return {"args": [{"const": model.lit_array(numpy.array(fa).reshape(shape), "float64"), "dress": 0},
                         {"const": model.lit_array(numpy.array(fb).reshape(shape), "float64"), "dress": 0}], "kwargs": {"rtol": 0.1, "atol": 0.0}}
    if name in ("isclose", "allclose") and ch.chance(0.5):
        a = _vals(ch.sub("ia"), shape, "inf")
        b = _vals(ch.sub("ib"), pshape, "inf")
        if ch.chance(0.7):  # same-signed infinities at the same positions
            b["const"]["flat"] = (a["const"]["flat"] * 8)[: len(b["const"]["flat"])]
    if ordering and ch.chance(0.3):
        ext = ch.choice(["bigint", "uint8", "uint64", "inf"])
        a = _vals(ch.sub("ea"), shape, ext)
        b = _vals(ch.sub("eb"), pshape, ext)
    if ch.chance(0.15):
        b = {"plain": b["const"]}  # a raw ndarray partner
    elif name not in ("power", "logical_and", "logical_or", "isclose", "allclose") and ch.chance(0.15):
        # a plain Python number; "primer" is an equal number spelled differently that went through the same function earlier
        v, prim = ch.choice([(0.0, -0.0), (-0.0, 0.0), (1, 1.0), (1.0, 1), (2, 2.0), (True, 1), (0, 0.0), (3, 3.0)])
        b = {"pyscalar": v, "primer": prim if ch.chance(0.7) else None}
    ca = ch.sub("alias")
    if ca.chance(0.08) and name != "power" and (name not in ("divide", "true_divide", "floor_divide", "remainder", "divmod") or all(a["const"]["flat"])):
        b = {"alias": 0}  # the very same object on both sides
    kw: Dict[str, Any] = {}
    if name in ("isclose", "allclose") and ch.chance(0.4):
        kw = {"rtol": ch.choice([1e-5, 0.3]), "atol": ch.choice([1e-8, 0.5])}
    return {"args": [a, b], "kwargs": kw}


def g_reduce(ch: core.Chooser, name: str) -> dict:
    shape = ch.choice(SHAPES)
    kind = _kind(ch)
    if name in ("any", "all") and ch.chance(0.4):
        kind = "bool"
    arg_like = name in ("argmax", "argmin", "cumsum")
    kw = _axis_kwargs(ch.sub("k"), shape, keepdims=name in ("sum", "mean", "any", "all", "amax", "amin", "max", "min", "prod", "count_nonzero"),
                      tuples=not arg_like)
    if name in ("argmax", "argmin", "amax", "amin", "max", "min") and not int(numpy.prod(shape, dtype=int)):
        shape = (2,)
    return {"args": [_vals(ch.sub("a"), shape, kind)], "kwargs": kw}


def g_linalg(ch: core.Chooser, name: str) -> dict:
    kind = _kind(ch)
    if name in ("inner", "outer"):
        m = ch.between(1, 4)
        n = m if name == "inner" else ch.between(1, 3)
        if name == "outer" and ch.sub("nd").chance(0.4):
            # numpy.outer flattens operands of any dimension
            sa, sb = ch.sub("nd").choice([((), ()), ((2, 2), (2, 2)), ((), (3,)), ((2, 1), (2,)), ((3,), (1, 2)), ((2, 1, 2), ())])
            return {"args": [_vals(ch.sub("a"), sa, kind), _vals(ch.sub("b"), sb, kind)], "kwargs": {}}
        return {"args": [_vals(ch.sub("a"), (m,), kind), _vals(ch.sub("b"), (n,), kind)], "kwargs": {}}
    if name == "matmul":
        l, m, r = ch.between(1, 3), ch.between(1, 3), ch.between(1, 3)
        sa, sb = ch.choice([((l, m), (m, r)), ((m,), (m, r)), ((l, m), (m,)), ((2, l, m), (m, r))])
        return {"args": [_vals(ch.sub("a"), sa, kind), _vals(ch.sub("b"), sb, kind)], "kwargs": {}}
    n = ch.choice([1, 2, 3])
    shape = (n, n) if ch.chance(0.8) else (2, n, n)
    return {"args": [_vals(ch.sub("a"), shape, kind)], "kwargs": {}}


def g_diff(ch: core.Chooser, name: str) -> dict:
    kind = _kind(ch)
    if name == "ediff1d":
        d = {"args": [_vals(ch.sub("a"), ch.choice([(3,), (5,), (2, 3), (1,)]), kind)], "kwargs": {}}
        if ch.chance(0.4):
            d["kwargs"]["to_end"] = ch.choice([0, 7])
        if ch.chance(0.3):
            d["kwargs"]["to_begin"] = ch.choice([0, -7])
        return d
    shape = ch.choice([(3,), (5,), (2, 3), (3, 2), (2, 3, 2)])
    kw: Dict[str, Any] = {}
    if ch.chance(0.5):
        kw["n"] = ch.choice([0, 1, 2, 3])
    if ch.chance(0.5):
        kw["axis"] = ch.choice(list(range(len(shape))) + [-1])
    return {"args": [_vals(ch.sub("a"), shape, kind)], "kwargs": kw}


def g_shape(ch: core.Chooser, name: str) -> dict:
    kind = _kind(ch)
    shape = ch.choice(SHAPES)
    size = int(numpy.prod(shape, dtype=int))
    a = _vals(ch.sub("a"), shape, kind)
    if name == "reshape":
        targets = {1: [(), (1,), (1, 1)], 2: [(2,), (1, 2), (-1,)], 3: [(3,), (3, 1), (1, 3)], 4: [(4,), (2, 2), (-1, 2)], 5: [(5,), (5, 1)],
                   6: [(6,), (2, 3), (3, 2), (-1,), (1, 2, 3)], 8: [(8,), (2, 4), (2, 2, 2)], 12: [(12,), (3, 4), (2, 6), (2, 3, 2), (-1, 3)]}[size]
        kw = {"order": ch.sub("order").choice(["A", "A", "F", "C"])} if ch.sub("order").chance(0.35) else {}
        if kw and len(shape) >= 2 and ch.sub("order").chance(0.6):
            a["dress"] = 3  # order="A" looks at the memory layout: give it a column-major one
        return {"args": [a, {"tuple": list(ch.choice(targets))}], "kwargs": kw}
    if name == "transpose":
        return {"args": [a], "kwargs": {}}
    if name == "moveaxis":
        shape = ch.choice([(2, 3), (2, 1, 3), (2, 3, 2)])
        nd = len(shape)
        return {"args": [_vals(ch.sub("a"), shape, kind), ch.below(nd), ch.below(nd) - (nd if ch.chance(0.3) else 0)], "kwargs": {}}
    if name == "expand_dims":
        return {"args": [a], "kwargs": {"axis": ch.choice([0, -1, len(shape)])}}
    if name in ("atleast_1d", "atleast_2d", "atleast_3d"):
        return {"args": [a], "kwargs": {}}
    if name == "repeat":
        kw = {"axis": ch.below(len(shape))} if shape and ch.chance(0.6) else {}
        return {"args": [a, ch.choice([1, 2, 3])], "kwargs": kw}
    if name == "tile":
        return {"args": [a, ch.choice([1, 2, {"tuple": [2, 1]}, {"tuple": [1, 2]}, {"tuple": [2, 1, 2]}])], "kwargs": {}}
    if name == "diag":
        shape = ch.choice([(2,), (3,), (2, 2), (2, 3), (3, 2), (1, 3), (3, 1)])
        return {"args": [_vals(ch.sub("a"), shape, kind)], "kwargs": ({"k": ch.choice([-1, 0, 1])} if ch.chance(0.5) else {})}
    if name == "diagonal":
        shape = ch.choice([(2, 2), (2, 3), (3, 2), (1, 3), (2, 2, 2), (2, 3, 2)])
        kw = {"offset": ch.choice([-1, 0, 1])} if ch.chance(0.5) else {}
        if len(shape) == 3 and ch.chance(0.5):
            kw.update({"axis1": 1, "axis2": 2})
        return {"args": [_vals(ch.sub("a"), shape, kind)], "kwargs": kw}
    if name == "broadcast_arrays":
        pshape = model.broadcast_partner_shape(ch.sub("ps"), shape)
        return {"args": [a, _vals(ch.sub("b"), pshape, kind)], "kwargs": {}}
    raise core.HarnessError(name)


def g_join(ch: core.Chooser, name: str) -> dict:
    kind = _kind(ch)
    if name in ("concatenate", "stack", "hstack", "vstack", "dstack"):
        shape = ch.choice([(2,), (3,), (2, 2), (2, 3), (1, 2, 2)] if name != "stack" else [(), (2,), (2, 2)])
        n = ch.between(1, 3)
        items = [_vals(ch.sub("i", i), shape, kind if ch.chance(0.8) else _kind(ch)) for i in range(n)]
        kw: Dict[str, Any] = {}
        if name in ("concatenate", "stack") and ch.chance(0.5):
            kw["axis"] = ch.choice(list(range(len(shape) + (name == "stack"))) + [-1]) if (shape or name == "stack") else 0
        return {"args": [{"seq": items}], "kwargs": kw}
    nd = {"split": 1, "array_split": 1, "hsplit": 1, "vsplit": 2, "dsplit": 3}[name]
    shape = {1: [(4,), (6,), (2,)], 2: [(4, 2), (2, 4), (2, 2)], 3: [(2, 2, 2), (1, 2, 4)]}[nd]
    shp = ch.choice(shape)
    if name == "array_split":
        shp = ch.choice([(3,), (5,), (4,)])
    sections: Any = 2
    if name in ("split", "array_split", "hsplit") and ch.chance(0.3):
        sections = {"seq": [1]} if name != "array_split" else 3
    return {"args": [_vals(ch.sub("a"), shp, kind), sections], "kwargs": {}}


def g_select(ch: core.Chooser, name: str) -> dict:
    kind = _kind(ch)
    shape = ch.choice([(2,), (3,), (2, 2), (2, 3)])
    size = int(numpy.prod(shape, dtype=int))
    if name == "where":
        cond = numpy.array([ch.chance(0.5) for _ in range(size)], dtype=bool).reshape(shape)
        return {"args": [{"array": model.lit_array(cond, "bool")}, _vals(ch.sub("a"), shape, kind), _vals(ch.sub("b"), shape if ch.chance(0.7) else (), kind)], "kwargs": {}}
    if name == "choose":
        m = ch.between(2, 3)
        idx = numpy.array([ch.below(m) for _ in range(size)]).reshape(shape)
        return {"args": [{"array": model.lit_array(idx, "int64")}, {"seq": [_vals(ch.sub("c", i), shape, kind) for i in range(m)]}], "kwargs": {}}
    return {"args": [_vals(ch.sub("a"), ch.choice([(3,), (5,), (2, 3), (2, 2, 2)]), kind)], "kwargs": {}}


def g_create(ch: core.Chooser, name: str) -> dict:
    kind = _kind(ch)
    shape = ch.choice(SHAPES)
    order = {"order": ch.sub("order").choice(["F", "F", "C", "K", "A"])} if ch.sub("order").chance(0.3) else {}
    if name in ("zeros_like", "ones_like"):
        kw = {"dtype": ch.choice(["float64", "int64"])} if ch.chance(0.3) else {}
        return {"args": [_vals(ch.sub("a"), shape, kind)], "kwargs": dict(kw, **order)}
    if name == "full_like":
        return {"args": [_vals(ch.sub("a"), shape, kind), _vals(ch.sub("v"), (), kind)], "kwargs": order}
    if name == "full":
        return {"args": [{"tuple": list(ch.choice([(2,), (2, 2), (), (3, 1), (2, 3)]))}, _vals(ch.sub("v"), (), kind)], "kwargs": {k: v for k, v in order.items() if v in "CF"}}
    raise core.HarnessError(name)


def g_types(ch: core.Chooser, name: str) -> dict:
    shape = ch.choice([(), (2,)])
    if name == "common_type":
        return {"args": [_vals(ch.sub("a"), shape, "float"), _vals(ch.sub("b"), shape, _kind(ch))], "kwargs": {}}
    return {"args": [_vals(ch.sub("a"), shape, _kind(ch)), _vals(ch.sub("b"), shape, _kind(ch))], "kwargs": {}}


def g_higher(ch: core.Chooser, name: str) -> dict:
    kind = _kind(ch)
    if name == "apply_along_axis":
        shape = ch.choice([(3,), (2, 3), (2, 2, 2)])
        return {"args": [{"func": "sum"}, ch.below(len(shape)), _vals(ch.sub("a"), shape, kind)], "kwargs": {}}
    shape = ch.choice([(2, 3), (2, 2, 2), (2, 3, 2)])
    return {"args": [{"func": "sum"}, _vals(ch.sub("a"), shape, kind), {"seq": [0, 1] if ch.chance(0.5) else [0]}], "kwargs": {}}


TABLE: Dict[str, Callable] = {}
for _n in ("absolute", "negative", "positive", "square", "ceil", "floor", "rint", "isfinite", "around", "round"):
    TABLE[_n] = g_unary
for _n in ("add", "subtract", "multiply", "power", "maximum", "minimum", "logical_and", "logical_or", "isclose", "allclose", "equal", "not_equal",
           "less", "less_equal", "greater", "greater_equal", "divide", "floor_divide", "remainder", "divmod"):
    TABLE[_n] = g_binary
for _n in ("sum", "prod", "mean", "cumsum", "any", "all", "amax", "amin", "max", "min", "argmax", "argmin", "count_nonzero"):
    TABLE[_n] = g_reduce
for _n in ("inner", "outer", "matmul", "det"):
    TABLE[_n] = g_linalg
for _n in ("diff", "ediff1d"):
    TABLE[_n] = g_diff
for _n in ("reshape", "transpose", "moveaxis", "expand_dims", "atleast_1d", "atleast_2d", "atleast_3d", "repeat", "tile", "diag", "diagonal", "broadcast_arrays"):
    TABLE[_n] = g_shape
for _n in ("concatenate", "stack", "hstack", "vstack", "dstack", "split", "array_split", "hsplit", "vsplit", "dsplit"):
    TABLE[_n] = g_join
for _n in ("where", "choose", "nonzero"):
    TABLE[_n] = g_select
for _n in ("zeros_like", "ones_like", "full_like", "full"):
    TABLE[_n] = g_create
for _n in ("result_type", "common_type"):
    TABLE[_n] = g_types
for _n in ("apply_along_axis", "apply_over_axes"):
    TABLE[_n] = g_higher
NOT_COMPARED = {"array_repr", "array_str", "savetxt", "copyto", "zeros", "ones"}
ORDERING = {"amax", "amin", "max", "min", "argmax", "argmin"}
TYPED = {"equal", "not_equal", "less", "less_equal", "greater", "greater_equal", "isclose", "allclose", "isfinite", "any", "all", "logical_and", "logical_or",
         "argmax", "argmin", "count_nonzero", "nonzero"}


def generate(rs: int, tier: str, index: int) -> dict:
    ch = core.Chooser(rs, "plan")
    names = sorted(TABLE)
    pre_systematic = index < 4 * len(names)
    if not pre_systematic and ch.chance(0.08):
        # numeric division by a non-constant polynomial must raise FeatureNotSupported
        fn = ch.choice(["floor_divide", "true_divide", "divide", "remainder", "divmod"])
        shape = ch.choice([(), (2,), (2, 2)])
        divisor = model.gen_poly(ch.sub("d"), shape=shape, kind="float", min_terms=1)
        if all(sum(e) == 0 for e in divisor["exponents"]):
            divisor["exponents"][0] = [1] + [0] * (len(divisor["names"]) - 1)
        size = int(numpy.prod(shape, dtype=int))
        nonconst = [i for i, e in enumerate(divisor["exponents"]) if sum(e)]
        divisor["coefficients"][nonconst[0]] = [1.5] * size
        step = {"id": 0, "k": "nonconst_div", "fn": fn, "a": _vals(ch.sub("a"), shape, "float"), "d": divisor}
    elif not pre_systematic and ch.chance(0.08):
        # history on one object: query, update the polynomial in place (copyto destination), query again
        fn = ch.choice(["argmin", "argmax", "amax", "amin", "max", "min", "sum", "mean", "cumsum", "any"])
        shape = ch.choice([(3,), (5,), (2, 3), (2, 2, 2)])
        kind = _kind(ch)
        step = {"id": 0, "k": "requery", "fn": fn, "first": dict(_vals(ch.sub("a"), shape, kind), dress=0), "second": _vals(ch.sub("b"), shape, kind),
                "kwargs": _axis_kwargs(ch.sub("k"), shape, tuples=False) if fn != "cumsum" else {}, "via": ch.choice(["numpoly", "numpy"])}
    elif not pre_systematic and ch.chance(0.08):
        # the polynomial is its own output target: fn(p, c, out=p) and the augmented operators
        # (only the forms numpoly's out= contract supports: plain constant operands whose keys the output already has,
        #  called through numpoly; augmented operators and true_divide/remainder with out= are a separate, patchy API)
        fn = ch.choice(["add", "subtract", "multiply", "floor_divide"])
        shape = ch.choice([(3,), (2, 2), (2, 3)])
        kind = _kind(ch)
        step = {"id": 0, "k": "inplace", "fn": fn, "a": dict(_vals(ch.sub("a"), shape, kind), dress=0),
                "b": dict(_vals(ch.sub("b"), shape if ch.chance(0.6) else (), kind, nonzero=True), dress=0), "form": "out"}
    else:
        fn = names[index % len(names)] if ch.chance(0.5) else ch.choice(names)
        if ch.chance(0.25):
            fn = ch.choice(sorted(ORDERING))
        systematic = index < 4 * len(names)  # every function x {int, float, large int after a narrow-dtype call, large float after one}
        if systematic:
            fn = names[index % len(names)]
            _FORCED_KIND[0] = ["int", "float", "largeint", "largefloat"][index // len(names)]
        _AWKWARD[0] = 0.7 if fn in PRECISION_SENSITIVE else 0.0
        probe = not systematic and ch.sub("precision").chance(0.05)
        if probe:
            # precision probe: a reduction/product over narrow floats holding numbers that are not exact there, so that
            # the width of the accumulator decides the last bits of the result
            fn = ch.sub("precision").choice(sorted(PRECISION_SENSITIVE))
            _FORCED_KIND[0], _AWKWARD[0] = "float", 1.0
        try:
            spec = TABLE[fn](ch.sub("g"), fn)
        finally:
            _FORCED_KIND[0] = None
            _AWKWARD[0] = 0.0
        # numpy.full(shape, poly) never dispatches (no array argument): numpoly spelling only
        if (probe or ch.chance(0.5 if fn in PRECISION_SENSITIVE else 0.2)) and not any(isinstance(a, dict) and "pyscalar" in a for a in spec["args"]):
            # narrower coefficient dtypes (the values are small and exactly representable); not together with Python
            # scalars: numpy treats those as weakly typed (uint8 - 3 wraps), numpoly converts them to int64 polynomials
            # first - a documented difference in promotion, outside "numeric arrays"
            narrow = {"int64": ch.choice(["int8", "int16", "int32", "uint8"]), "float64": ch.choice(["float32", "float16"])}
            def cast(a: Any) -> Any:
                if isinstance(a, dict) and ("const" in a or "plain" in a):
                    key = "const" if "const" in a else "plain"
                    lit = a[key]
                    new = narrow.get(lit["dtype"])
                    if new and (not new.startswith("u") or all(v >= 0 for v in lit["flat"])) and all(abs(v) < 100 for v in lit["flat"] if isinstance(v, (int, float)) and v == v and abs(v) != float("inf")):
                        return dict(a, **{key: dict(lit, dtype=new)})
                if isinstance(a, dict) and "seq" in a:
                    return dict(a, seq=[cast(x) for x in a["seq"]])
                return a
            spec = dict(spec, args=[cast(a) for a in spec["args"]])
        primer_cast = ch.choice(["int8", "float32"]) if ch.chance(0.2) else None  # the same call on narrower operands, earlier in the process
        if systematic and index >= 2 * len(names):
            primer_cast = "int8"
        step = {"id": 0, "k": "mirror", "fn": fn, "args": spec["args"], "kwargs": spec["kwargs"], "primer_cast": primer_cast,
                "spelling": "numpoly" if fn == "full" else ch.choice(["numpoly", "numpoly", "numpy"])}
        # the method spelling (p.sum(...)): ndarray's own methods route through __array_ufunc__ / __array_function__
        cm = ch.sub("method")
        if fn in METHODS and spec["args"] and isinstance(spec["args"][0], dict) and "const" in spec["args"][0] and cm.chance(0.35):
            step["spelling"] = "method"
        if cm.sub("abort").chance(0.12):
            step["abort_first"] = cm.sub("abort").below(100000)  # the same call was made before and aborted part-way
        # history: the same function was called earlier with keywords the judged call leaves out
        if cm.chance(0.25):
            step["primer_kwargs"] = cm.choice([{"keepdims": True}, {"initial": 100}, {"dtype": "float64"}, {"dtype": "bool"}, {"axis": 0},
                                               {"axis": 0, "keepdims": True}, {"axis": 0, "initial": 100}, {"axis": -1, "dtype": "float64"}])
        if cm.sub("errstate").chance(0.5 if fn in ("isclose", "allclose", "isfinite") else 0.1):
            step["errstate"] = "raise"  # numpy's floating-point error state (process-wide): judged only where numpy itself returns under it
    allenvs = [(p, f) for p in POLICIES for f in FILLS]
    envs = [("stable", "zero")] + ch.sample([e for e in allenvs if e != ("stable", "zero")], 7 if tier == "thorough" else 2)
    plan = {"property": ID, "run_seed": rs, "tier": tier, "prelude": prelude.gen_prelude(core.Chooser(rs, "prelude")), "envs": [list(e) for e in envs], "steps": [step]}
    if ch.sub("interp").chance(0.01):
        plan["interpreter"] = ["-O"]  # the whole run in `python -O` (assert statements stripped)
    return plan


# ---------------------------------------------------------------------------


def _dress(arr: numpy.ndarray, dress: int) -> Any:
    import numpoly

    if dress == 0:
        return numpoly.polynomial(arr)
    if dress == 3:
        return numpoly.polynomial(numpy.ascontiguousarray(arr.T)).T
    if dress == 4:
        out = numpoly.polynomial(arr)
        out.flags.writeable = False
        return out
    if dress == 1:
        return numpoly.polynomial_from_attributes([[0, 0]], [arr], ("q0", "q3"), retain_names=True, retain_coefficients=True)
    return numpoly.polynomial_from_attributes([[0, 0], [1, 2]], [arr, numpy.zeros_like(arr)], ("q1", "q2"), retain_names=True, retain_coefficients=True)


def _build(v: Any, side: str) -> Any:
    import numpoly

    if isinstance(v, dict):
        if "const" in v:
            arr = model.build_array(v["const"])
            if side == "numpy":
                # the reference gets the same memory layout (it matters to order="A"/"K")
                return numpy.ascontiguousarray(arr.T).T if v.get("dress") == 3 else arr
            return _dress(arr, v.get("dress", 0))
        if "plain" in v:
            return model.build_array(v["plain"])
        if "alias" in v:
            return None  # filled in by the caller: the same object as another argument
        if "pyscalar" in v:
            return v["primer"] if side == "primer" and v.get("primer") is not None else v["pyscalar"]
        if "seq" in v:
            return [_build(x, side) for x in v["seq"]]
        if "func" in v:
            return numpy.sum if side == "numpy" else numpoly.sum
        return model.build_value(v)
    return v


def _rounding_allowance(fn: str, np_args: list) -> float:
    """Absolute tolerance for functions numpoly evaluates in another operation order than numpy (exact expansion
    against LU factorisation, term-by-term products against BLAS, sequential against pairwise sums): rounding errors
    scale with the magnitude of the intermediate products, not with the (possibly cancelled) result."""
    degree = {"det": None, "matmul": 2, "inner": 2, "prod": None, "sum": 1, "mean": 1, "cumsum": 1}.get(fn, 0)
    if degree == 0 and fn not in ("det", "prod"):
        return 0.0
    m = 1.0
    size = 1
    for a in np_args:
        if isinstance(a, numpy.ndarray) and a.dtype.kind in "iufc" and a.size:
            finite = numpy.abs(a[numpy.isfinite(a)]) if a.dtype.kind in "fc" else numpy.abs(a.astype(float))
            if finite.size:
                m = max(m, float(finite.max()))
            size = max(size, a.size)
            if fn == "det":
                degree = a.shape[-1]
            elif fn == "prod":
                degree = max(a.shape) if a.ndim else 1
    if m <= 4.0:  # small exactly representable data: numpoly and numpy agree to the last bits that the relative test leaves
        return 1e-9 if fn == "det" else 0.0
    return 1e-11 * size * m ** (degree or 1)


def _errstate(step: dict) -> Any:
    """Default: everything silent.  "raise": invalid operations and divisions by zero raise (integer wrap-around and
    float overflow stay silent: numpy itself treats them differently for scalars and arrays)."""
    if step.get("errstate") == "raise":
        return numpy.errstate(invalid="raise", divide="raise", over="ignore", under="ignore")
    return numpy.errstate(all="ignore")


def _alias(specs: list, built: list) -> list:
    return [built[a["alias"]] if isinstance(a, dict) and "alias" in a else x for a, x in zip(specs, built)]


def _to_numpy(res: Any) -> Any:
    import numpoly

    if isinstance(res, numpoly.ndpoly):
        return ("arr", res.tonumpy())
    if isinstance(res, (tuple, list)):
        return ("seq", [_to_numpy(r) for r in res])
    if isinstance(res, numpy.ndarray):
        return ("arr", res)
    return ("val", res)


# functions numpoly hands to numpy element-wise / lane-wise on the coefficient arrays: the result is bit-for-bit numpy's,
# also in float16/float32 (no tolerance for intermediate precision)
EXACT = {"mean", "sum", "cumsum", "max", "min", "amax", "amin", "absolute", "abs", "negative", "positive", "add", "subtract", "around", "round",
         "rint", "floor", "ceil", "square", "multiply", "true_divide", "divide", "floor_divide", "remainder", "maximum", "minimum"}


def _compare(a: Any, b: Any, typed: bool, atol: float = 0.0, exact: bool = False) -> Optional[str]:
    """a: numpy's result, b: numpoly's (converted)."""
    ka, va = _to_numpy(a)
    kb, vb = b
    if ka == "seq":
        if kb != "seq" or len(va) != len(vb):
            return f"sequence of {len(va)} vs {kb} {len(vb) if kb == 'seq' else ''}"
        for i, (x, y) in enumerate(zip(va, vb)):
            msg = _compare(x[1] if isinstance(x, tuple) else x, y, typed, atol, exact)
            if msg:
                return f"[{i}] {msg}"
        return None
    x = numpy.asarray(va)
    y = numpy.asarray(vb)
    if y.dtype.names:
        return f"returned raw structured storage {y.dtype} instead of numbers"
    if x.shape != y.shape:
        return f"shape {y.shape}, numpy gives {x.shape}"
    if typed and x.dtype.kind != y.dtype.kind:
        return f"dtype {y.dtype}, numpy gives {x.dtype}"
    if x.dtype == object or y.dtype == object:
        return None if str(x) == str(y) else f"{y} vs {x}"
    if x.dtype.kind in "US" or y.dtype.kind in "US":
        return None if numpy.array_equal(x, y) else f"{y} vs {x}"
    with numpy.errstate(all="ignore"):
        rtol = 1e-12 if not atol else 1e-9
        if x.dtype in (numpy.float32, numpy.float16, numpy.complex64) or y.dtype in (numpy.float32, numpy.float16, numpy.complex64):
            rtol = 2e-3 if numpy.float16 in (x.dtype, y.dtype) else 1e-5
        if exact:
            rtol = 0.0
        if not numpy.allclose(x, y, rtol=rtol, atol=atol, equal_nan=True):
            return f"values {y.tolist()}, numpy gives {x.tolist()}"
    return None


class Runner:
    def __init__(self, plan: dict):
        self.plan = plan
        self.rs = plan["run_seed"]
        self.violations: List[dict] = []
        self.events: List[Any] = []
        self.stats: Dict[str, int] = {}
        self.sigs: set = set()

    def bump(self, key: str, n: int = 1) -> None:
        self.stats[key] = self.stats.get(key, 0) + n

    def violate(self, clause: str, op: str, sid: Any, detail: str, where: Optional[dict] = None) -> None:
        rec = core.Violation(clause, op, detail[:500], where or {}, sid).record()
        if not any(core.vclass(r) == core.vclass(rec) for r in self.violations):
            self.violations.append(rec)
        self.events.append(["violation", sid, clause, op])

    def run_step(self, step: dict) -> None:
        import numpoly

        sid = step["id"]
        fn = step["fn"]
        self.bump(f"op:{fn}")
        if step["k"] == "nonconst_div":
            a = _build(step["a"], "numpoly")
            d = model.build_poly(step["d"])
            func = getattr(numpoly, fn, None) or getattr(numpy, fn)
            try:
                func(a, d)
            except numpoly.FeatureNotSupported:
                self.bump("decided")
                self.sigs.add(f"nonconst|{fn}|{core.H(core.jdump(step))}")
                self.events.append(["nonconst", fn, "FeatureNotSupported"])
                return
            except Exception as exc:  # noqa: BLE001
                self.violate("nonconstant-divisor-raises", fn, sid, f"raised {type(exc).__name__}: {exc} instead of FeatureNotSupported")
                return
            self.violate("nonconstant-divisor-raises", fn, sid, "returned a value for a non-constant polynomial divisor")
            return
        if step["k"] == "requery":
            self.do_requery(step)
            return
        if step["k"] == "inplace":
            self.do_inplace(step)
            return
        np_func = numpy.linalg.det if fn == "det" else getattr(numpy, fn)
        try:
            np_args = _alias(step["args"], [_build(a, "numpy") for a in step["args"]])
            kwargs = {k: _build(v, "numpy") for k, v in step["kwargs"].items()}
            with _errstate(step):
                want = np_func(*np_args, **kwargs)
        except Exception as exc:  # noqa: BLE001
            self.bump("undecided:numpy-rejects-arguments")
            self.events.append(["numpy-raises", fn, type(exc).__name__])
            return
        traits = self._traits(step, want)
        has_tie = False
        for a in step["args"]:
            for lit in ([a] if isinstance(a, dict) and "const" in a else (a.get("seq", []) if isinstance(a, dict) else [])):
                if isinstance(lit, dict) and "const" in lit:
                    flat = lit["const"]["flat"]
                    has_tie |= len(set(map(str, flat))) < len(flat)
        fps = []
        for pol, fill in self.plan["envs"]:
            with seams.Env(core.H(self.rs, pol, fill), sort=pol, fill=fill) as env:
                env.begin_step(sid)
                try:
                    p_args = _alias(step["args"], [_build(a, "numpoly") for a in step["args"]])
                    for a in p_args:
                        if isinstance(a, numpoly.ndpoly):
                            env.remember(a)
                    func = getattr(numpoly, fn, None) if step.get("spelling") == "numpoly" else None
                    func = func or np_func
                    if step.get("spelling") == "method" and p_args and isinstance(p_args[0], numpoly.ndpoly):
                        try:  # only where the plain array's own method accepts this call
                            with numpy.errstate(all="ignore"):
                                getattr(np_args[0], fn)(*np_args[1:], **kwargs)
                        except Exception:  # noqa: BLE001
                            self.bump("probe:method_spelling_not_available")
                        else:
                            self.bump("probe:method_spelling")

                            def func(first: Any, *rest: Any, _fn: str = fn, **kw: Any) -> Any:  # noqa: F811
                                return getattr(first, _fn)(*rest, **kw)
                    if step.get("abort_first") is not None:
                        with numpy.errstate(all="ignore"):
                            seams.interrupted_first(lambda: func(*p_args, **kwargs), NUMPOLY_DIR, step["abort_first"], self.stats)
                    if step.get("primer_kwargs"):
                        try:
                            with numpy.errstate(all="ignore"):
                                func(*p_args, **{**kwargs, **step["primer_kwargs"]})
                            self.bump("probe:primer_same_call_more_keywords")
                        except Exception:  # noqa: BLE001
                            pass
                    if step.get("primer_cast"):
                        try:
                            narrow_args = []
                            for a, x in zip(step["args"], p_args):
                                if isinstance(a, dict) and "const" in a and a["const"]["dtype"] in ("int64", "float64"):
                                    target = step["primer_cast"] if a["const"]["dtype"] == "int64" else "float32"
                                    narrow_args.append(_dress(numpy.clip(model.build_array(a["const"]), -100, 100).astype(target), 0))
                                else:
                                    narrow_args.append(x)
                            with numpy.errstate(all="ignore"):
                                func(*narrow_args, **kwargs)
                            self.bump("probe:primer_same_call_narrower_dtype")
                        except Exception:  # noqa: BLE001
                            pass
                    if any(isinstance(a, dict) and a.get("primer") is not None for a in step["args"]):
                        try:
                            with numpy.errstate(all="ignore"):
                                func(*[_build(a, "primer") if isinstance(a, dict) and "pyscalar" in a else x for a, x in zip(step["args"], p_args)], **kwargs)
                            self.bump("probe:primer_equal_number_other_spelling")
                        except Exception:  # noqa: BLE001
                            pass
                    with _errstate(step):
                        got = func(*p_args, **kwargs)
                    conv = _to_numpy(got)
                except Exception as exc:  # noqa: BLE001
                    if not core.through_numpoly(exc, NUMPOLY_DIR):
                        raise
                    self.violate("raises-where-numpy-returns", fn, sid, f"[{pol}/{fill}] {type(exc).__name__}: {exc}", dict(traits, exc=type(exc).__name__))
                    fps.append("raised")
                    continue
                finally:
                    for key in ("seam:sort.consults", "seam:sort.consults_with_tie", "seam:heap.ndpoly_allocs", "seam:heap.empty_allocs", "seam:heap.bytes_filled"):
                        self.bump(key, env.counters.get(key, 0))
                    self.bump(f"consults:{fn}", env.counters.get("seam:sort.consults", 0) + env.counters.get("seam:heap.ndpoly_allocs", 0))
            self.bump("decided")
            if has_tie or isinstance(got, numpoly.ndpoly):
                self.sigs.add(f"{core.H(core.jdump(step))}|{pol}|{fill}")
            # numpy's det goes through a floating-point LU factorisation; numpoly expands exactly
            # bit-for-bit only when the operands are laid out like the reference's (pairwise summation follows the memory order)
            same_layout = not any(isinstance(a, dict) and a.get("dress") == 3 for a in step["args"])
            msg = _compare(want, conv, fn in TYPED, atol=_rounding_allowance(fn, np_args), exact=fn in EXACT and same_layout)
            if msg:
                clause = "ties-first-occurrence" if fn in ("argmax", "argmin") else ("extreme-along-axis" if fn in ORDERING else "matches-numpy")
                self.violate(clause, fn, sid, f"[{pol}/{fill}] kwargs={step['kwargs']}: {msg}", dict(traits, env="default" if (pol, fill) == ("stable", "zero") else "adversarial"))
            fps.append(str(conv)[:300])
        if len(set(fps)) > 1 and "raised" not in fps:
            self.violate("environment-independent", fn, sid, f"results differ between environments {self.plan['envs']}", traits)
        self.events.append(["mirror", fn, fps[0] if fps else None])

    def do_requery(self, step: dict) -> None:
        import numpoly

        sid, fn = step["id"], step["fn"]
        first, second = model.build_array(step["first"]["const"]), model.build_array(step["second"]["const"])
        kwargs = {k: _build(v, "numpy") for k, v in step["kwargs"].items()}
        np_func = getattr(numpy, fn)
        try:
            want1, want2 = np_func(first, **kwargs), np_func(second, **kwargs)
        except Exception:  # noqa: BLE001
            self.bump("undecided:numpy-rejects-arguments")
            return
        for pol, fill in self.plan["envs"]:
            with seams.Env(core.H(self.rs, pol, fill), sort=pol, fill=fill) as env:
                env.begin_step(sid)
                try:
                    p = _dress(first.copy(), step["first"].get("dress", 0))
                    func = getattr(numpoly, fn, None) or np_func
                    got1 = _to_numpy(func(p, **kwargs))
                    (numpoly.copyto if step["via"] == "numpoly" else numpy.copyto)(p, second)
                    got2 = _to_numpy(func(p, **kwargs))
                except Exception as exc:  # noqa: BLE001
                    if not core.through_numpoly(exc, NUMPOLY_DIR):
                        raise
                    self.violate("raises-where-numpy-returns", fn, sid, f"[{pol}/{fill}] query/copyto/query: {type(exc).__name__}: {exc}", {"history": "requery"})
                    continue
            self.bump("decided")
            self.sigs.add(f"requery|{core.H(core.jdump(step))}|{pol}|{fill}")
            msg1 = _compare(want1, got1, fn in TYPED)
            msg2 = _compare(want2, got2, fn in TYPED)
            if msg1:
                self.violate("matches-numpy", fn, sid, f"[{pol}/{fill}] first query: {msg1}", {"history": "requery"})
            elif msg2:
                self.violate("matches-numpy-after-update", fn, sid, f"[{pol}/{fill}] after copyto(p, new values) the same query gives {msg2}", {"history": "requery"})
        self.events.append(["requery", fn])

    def do_inplace(self, step: dict) -> None:
        import numpoly
        import operator

        sid, fn = step["id"], step["fn"]
        a, b = model.build_array(step["a"]["const"]), model.build_array(step["b"]["const"])
        np_func = getattr(numpy, fn)
        iops = {"add": operator.iadd, "subtract": operator.isub, "multiply": operator.imul, "floor_divide": operator.ifloordiv, "true_divide": None, "remainder": None}
        ref = a.copy()
        try:
            with numpy.errstate(all="ignore"):
                np_func(ref, b, out=ref)
        except Exception:  # noqa: BLE001
            self.bump("undecided:numpy-rejects-arguments")
            return
        form = step["form"] if iops.get(fn) is not None else "out"
        for pol, fill in self.plan["envs"]:
            with seams.Env(core.H(self.rs, pol, fill), sort=pol, fill=fill) as env:
                env.begin_step(sid)
                try:
                    p = _dress(a.copy(), step["a"].get("dress", 0))
                    c = _dress(b.copy(), step["b"].get("dress", 0))
                    with numpy.errstate(all="ignore"):
                        if form == "out":
                            res = getattr(numpoly, fn)(p, c, out=p)
                        else:
                            res = iops[fn](p, c)
                    got = _to_numpy(res)
                    got_p = _to_numpy(p)
                except Exception as exc:  # noqa: BLE001
                    if not core.through_numpoly(exc, NUMPOLY_DIR):
                        raise
                    self.violate("raises-where-numpy-returns", fn, sid, f"[{pol}/{fill}] {form} form with the polynomial as its own output: {type(exc).__name__}: {exc}", {"history": "inplace", "form": form})
                    continue
            self.bump("decided")
            self.sigs.add(f"inplace|{core.H(core.jdump(step))}|{pol}|{fill}")
            msg = _compare(ref, got, False) or _compare(ref, got_p, False)
            if msg:
                self.violate("matches-numpy", fn, sid, f"[{pol}/{fill}] {fn}(p, c, {'out=p' if form == 'out' else 'augmented operator'}): {msg}", {"history": "inplace", "form": form})
        self.events.append(["inplace", fn, form])

    @staticmethod
    def _traits(step: dict, want: Any) -> dict:
        """Vocabulary for known-findings matching (fixed here, see known_findings.json)."""
        def leaves(x: Any):
            if isinstance(x, (tuple, list)):
                for y in x:
                    yield from leaves(y)
            else:
                yield numpy.asarray(x)

        def lits(args: Any):
            for a in args:
                if isinstance(a, dict) and ("const" in a or "plain" in a):
                    yield a.get("const") or a.get("plain")
                elif isinstance(a, dict) and "seq" in a:
                    yield from lits(a["seq"])

        arrays = list(lits(step["args"]))
        ndims = [len(lit["shape"]) for lit in arrays]
        degenerate = any(leaf.size == 0 for leaf in leaves(want))
        if step["fn"] == "ediff1d" and arrays:
            degenerate |= int(numpy.prod(arrays[0]["shape"], dtype=int)) <= 1
        if step["fn"] == "diff" and arrays and arrays[0]["shape"]:
            axis = step["kwargs"].get("axis", -1)
            degenerate |= arrays[0]["shape"][axis] - step["kwargs"].get("n", 1) <= 0
        zero_div_retained = False
        if step["fn"] in ("divide", "true_divide", "floor_divide", "remainder", "divmod") and len(step["args"]) == 2:
            a0, a1 = step["args"]
            divisor_zero = (isinstance(a1, dict) and "pyscalar" in a1 and a1["pyscalar"] == 0) or \
                (isinstance(a1, dict) and ("const" in a1 or "plain" in a1) and any(v == 0 for v in (a1.get("const") or a1.get("plain"))["flat"]))
            zero_div_retained = bool(divisor_zero and isinstance(a0, dict) and a0.get("dress") == 2)
        return {
            "zero_divisor_retained_terms": zero_div_retained,
            "size0": bool(degenerate),
            "ndim3": max(ndims or [0]) >= 3,
            "axis_given": "axis" in step["kwargs"],
            "unsigned_data": any(str(lit.get("dtype", "")).startswith("u") for lit in arrays),
        }

    def run(self) -> None:
        for step in self.plan["steps"]:
            self.run_step(step)


def execute(plan: dict) -> dict:
    import warnings

    runner = Runner(plan)
    with warnings.catch_warnings():
        warnings.simplefilter("ignore")
        prelude.run_prelude(plan.get("prelude"), runner.stats)
        runner.run()
    return {"violations": runner.violations, "events": runner.events, "stats": runner.stats, "sigs": sorted(runner.sigs)}


def simplify(plan: dict):
    if plan.get("prelude"):
        yield dict(plan, prelude=None)
        for i in range(len(plan["prelude"])):
            yield dict(plan, prelude=plan["prelude"][:i] + plan["prelude"][i + 1:] or None)
    if len(plan["envs"]) > 1:
        for env in plan["envs"]:
            yield dict(plan, envs=[env])
    step = plan["steps"][0]
    if step["k"] != "mirror":
        return
    if plan.get("interpreter"):
        yield {k: v for k, v in plan.items() if k != "interpreter"}
    for key in ("primer_kwargs", "primer_cast", "abort_first", "errstate"):
        if step.get(key):
            yield dict(plan, steps=[dict(step, **{key: None})])
    if step.get("spelling") == "method":
        yield dict(plan, steps=[dict(step, spelling="numpoly")])
    if step["kwargs"]:
        for key in step["kwargs"]:
            yield dict(plan, steps=[dict(step, kwargs={k: v for k, v in step["kwargs"].items() if k != key})])
    for i, a in enumerate(step["args"]):
        if isinstance(a, dict) and "const" in a:
            if a.get("dress"):
                yield dict(plan, steps=[dict(step, args=step["args"][:i] + [dict(a, dress=0)] + step["args"][i + 1:])])
            lit = a["const"]
            if len(lit["shape"]) == 1 and lit["shape"][0] > 1:
                n = lit["shape"][0]
                for j in range(n):
                    nl = dict(lit, shape=[n - 1], flat=lit["flat"][:j] + lit["flat"][j + 1:])
                    yield dict(plan, steps=[dict(step, args=step["args"][:i] + [dict(a, const=nl)] + step["args"][i + 1:])])
