"""Option-history prelude: what the process did *before* the operation under test.

A property about pickling, sorting or dtype handling is silent about options,
so it has to hold in a process that earlier opened and left global_options
blocks (normally or by exception), called set_options and restored the
defaults, and ran library code under those other settings.  The prelude is a
seeded history of that kind which always *ends with the shipped defaults in
force* (through the public API); anything it leaves behind — a cache filled
under another setting, a module-level reference to a stale option dict — is
then visible to the property's own oracle.
"""
from __future__ import annotations

from typing import Any, Dict, List, Optional

from . import core, ops

PRELUDE_OPS = ["op.mul", "op.add", "str", "repr", "less", "derivative", "set_dimensions", "pickle", "monomial", "getitem", "sum", "lead_exponent", "polynomial.list", "clean_attributes"]
OPTION_DOMAIN = {
    "retain_names": [True, False], "retain_coefficients": [True, False], "sort_graded": [True, False], "sort_reverse": [True, False],
    "display_graded": [True, False], "display_reverse": [True, False], "display_inverse": [True, False],
    "display_exponent": ["**", "^"], "display_multiply": ["*", "·"], "force_number_suffix": [True, False],
}


def gen_prelude(ch: core.Chooser, chance: float = 0.3) -> Optional[List[dict]]:
    if not ch.chance(chance):
        return None
    ops.ensure()
    blocks = []
    for i in range(ch.between(1, 3)):
        c = ch.sub(i)
        keys = c.sample(sorted(OPTION_DOMAIN), c.between(1, 3))
        if c.chance(0.5) and "retain_names" not in keys:
            keys.append("retain_names")
        kw = {k: c.choice(OPTION_DOMAIN[k]) for k in sorted(keys)}
        if "retain_names" in kw and c.chance(0.7):
            kw["retain_names"] = False
        blocks.append({
            "how": c.choice(["block", "block", "set_restore", "block_raise", "rejected"]),
            "kw": kw,
            "ops": [ops.gen_op(c.sub("op", j), only=PRELUDE_OPS) for j in range(c.between(0, 2))],
        })
    return blocks


class _Leave(Exception):
    pass


def run_prelude(blocks: Optional[List[dict]], stats: Optional[Dict[str, int]] = None) -> None:
    if not blocks:
        return
    import numpoly

    defaults = numpoly.get_options(defaults=True)

    def bump(key: str) -> None:
        if stats is not None:
            stats[key] = stats.get(key, 0) + 1

    def body(block: dict) -> None:
        for desc in block["ops"]:
            try:
                args, kwargs = ops.build_args(desc)
                ops.call(desc, args, kwargs)
            except core.SimInterrupt:
                raise
            except Exception:  # noqa: BLE001  (outcome irrelevant: only the history matters)
                pass

    for block in blocks:
        how = block["how"]
        bump(f"probe:prelude_{how}")
        try:
            if how == "block":
                with numpoly.global_options(**block["kw"]):
                    body(block)
            elif how == "block_raise":
                try:
                    with numpoly.global_options(**block["kw"]):
                        body(block)
                        raise _Leave()
                except _Leave:
                    pass
            elif how == "set_restore":
                numpoly.set_options(**block["kw"])
                body(block)
                numpoly.set_options(**defaults)
            else:  # a rejected update: valid keys first, then an unknown one
                try:
                    numpoly.set_options(**block["kw"], no_such_option=1)
                except KeyError:
                    pass
                body(block)
        except core.SimInterrupt:
            raise
        except Exception:  # noqa: BLE001
            pass
    # the history ends with the shipped defaults in force, through the public API
    try:
        if numpoly.get_options() != defaults:
            bump("probe:prelude_left_options_modified")
        numpoly.set_options(**defaults)
    except Exception:  # noqa: BLE001
        pass
