#!/bin/sh
# Offline setup: nothing to build (pure Python harness run with /venv/bin/python).
# jsonschema (evidence validation) is installed into /verif/.deps from the offline
# wheelhouse when available; the runner falls back to an in-house validator.
cd "$(dirname "$0")"
/venv/bin/python -m pip install -q --no-index --find-links /opt/veriftools/wheels --target .deps jsonschema >/dev/null 2>&1 || echo "note: jsonschema not installed; using the built-in evidence validator"
/venv/bin/python -c "import numpoly, sys; print('numpoly from', numpoly.__file__)" || exit 1
exit 0
